------------------------------ MODULE TypeRules ------------------------------
(***************************************************************************)
(* Rule-level specification of samlang's TYPE SYSTEM for a core fragment,  *)
(* next to a dynamic semantics of the same fragment; TLC checks type       *)
(* soundness over EVERY term up to a size bound.                           *)
(*                                                                         *)
(*   serves  C06 "a program containing a static error is always rejected"  *)
(*           C03 "programs accepted by the checker never go wrong"         *)
(*           C13 (design level) annotating a let with the inferred type    *)
(*               changes nothing                                           *)
(*                                                                         *)
(* Parts                                                                   *)
(*   (1) types, the fixed declarations of the program skeleton             *)
(*   (2) abstract syntax of the expression fragment                        *)
(*   (3) the typing judgment  TypeOf(e) = a type | Error(kind)             *)
(*   (4) the dynamic semantics Eval(e) = value | Panic | Impl | Stuck      *)
(*   (5) the term universes (profiles) TLC enumerates, and the theorems    *)
(*                                                                         *)
(* How to read part (3).  Two kinds of rules live side by side and are     *)
(* marked in the comments:                                                 *)
(*   [RULE]  what the LANGUAGE says (spec.md 5.9, 5.13, 6.x): operand and  *)
(*           argument types, arities, resolution of names, exhaustiveness. *)
(*           An Error(kind) produced by such a rule is a static error of   *)
(*           the program: the real checker accepting the term is a         *)
(*           violation of C06.  These kinds are HardKinds.                 *)
(*   [XCR]   a TRANSCRIPTION of how crates/samlang-checker/src/            *)
(*           main_checker.rs infers ("bidirectional" checking: which       *)
(*           sub-expression receives which hint, synthesis mode and        *)
(*           placeholder types, the phases of check_function_call_         *)
(*           implicit_instantiation, solve_type_constrains, type_meet).    *)
(*           The kinds they produce -- "underconstrained" (not enough      *)
(*           context) and "name-collision" (spec.md 6.13.1 even ALLOWS     *)
(*           rebinding; ssa_analysis.rs rejects it) -- are SoftKinds: the  *)
(*           checker accepting such a term is MODEL-DRIFT, never a         *)
(*           violation.                                                    *)
(* TypeOf stops at the first error in the checker's own traversal order    *)
(* (the checker goes on with the type `any`; a term with an error is       *)
(* rejected whatever comes after).                                         *)
(*                                                                         *)
(* TLC notes: records of different shapes may meet in one set, and TLC     *)
(* compares records field by field in an internal order of the field       *)
(* NAMES -- so a field name never holds values of two different sorts      *)
(* (i / bv / s for literal payloads, fld vs f, cls vs c, ...).             *)
(***************************************************************************)
EXTENDS Integers, Sequences, FiniteSets, TLC, Json, IOUtils

\* TRUE: `if` demands a bool condition (spec.md 6.10.1).  FALSE is the must-fail configuration
\* (TypeRulesAsIs.cfg): it is also what check_if_else does today -- see the finding in checks/typerules.py.
CONSTANT IfChecksCond

EnvOr(name, default) == IF name \in DOMAIN IOEnv THEN IOEnv[name] ELSE default
Profile == EnvOr("TR_PROFILE", "core")
MaxSize == atoi(EnvOr("TR_SIZE", "3"))
EmitOn  == EnvOr("TR_EMIT", "0") = "1"

Range(s) == { s[i] : i \in 1..Len(s) }

(* ======================================================================= *)
(* (1) Types -- the five forms of samlang-checker/src/type_.rs `Type`       *)
(* ======================================================================= *)
Prim(n)    == [k |-> "prim", n |-> n]               \* int, bool (unit is not in the fragment)
Nom(c, ta) == [k |-> "nom", c |-> c, ta |-> ta]     \* Str, P, Opt, Pair<A, B>
Fn(as, r)  == [k |-> "fn", as |-> as, r |-> r]
Gen(n)     == [k |-> "gen", n |-> n]                \* a type parameter; only inside signatures
AnyT(ph)    == [k |-> "any", ph |-> ph]              \* [XCR] Type::AnyT(_, is_placeholder); never a result
TInt  == Prim("int")
TBool == Prim("bool")
TStr  == Nom("Str", <<>>)
TOpt  == Nom("Opt", <<>>)
TP    == Nom("P", <<>>)
TPair(a, b) == Nom("Pair", <<a, b>>)
Err(kind) == [k |-> "error", kind |-> kind]
NoHint == [k |-> "nohint"]                          \* also: "no annotation"
Fail   == [k |-> "fail"]
IsErr(t) == t.k = "error"

HardKinds == {"type-mismatch", "arity", "targ-arity", "unresolved-name", "unresolved-class", "unresolved-member",
              "non-exhaustive", "not-callable", "not-a-class", "not-an-enum", "pattern-arity"}
SoftKinds == {"underconstrained", "name-collision"}

RECURSIVE HasPh(_), Ground(_), Subst(_, _), Assignable(_, _), Meet(_, _)
\* type_system.rs contains_placeholder
HasPh(t) == CASE t.k = "any" -> t.ph
              [] t.k = "nom" -> \E i \in 1..Len(t.ta) : HasPh(t.ta[i])
              [] t.k = "fn"  -> HasPh(t.r) \/ \E i \in 1..Len(t.as) : HasPh(t.as[i])
              [] OTHER -> FALSE
\* a type a program can denote: no `any`, no type parameter
Ground(t) == CASE t.k = "prim" -> TRUE
               [] t.k = "nom" -> \A i \in 1..Len(t.ta) : Ground(t.ta[i])
               [] t.k = "fn"  -> Ground(t.r) /\ \A i \in 1..Len(t.as) : Ground(t.as[i])
               [] OTHER -> FALSE
\* type_system.rs subst_type; m: type-parameter name -> type (a function, possibly <<>>)
Subst(t, m) == CASE t.k = "gen" -> IF t.n \in DOMAIN m THEN m[t.n] ELSE t
                 [] t.k = "nom" -> Nom(t.c, [i \in 1..Len(t.ta) |-> Subst(t.ta[i], m)])
                 [] t.k = "fn"  -> Fn([i \in 1..Len(t.as) |-> Subst(t.as[i], m)], Subst(t.r, m))
                 [] OTHER -> t
\* [RULE] spec.md 5.9: structurally identical (generics invariant).  [XCR] `any` is compatible with everything
\* (type_system.rs assignability_check_visit); on ground types this is plain equality.
Assignable(l, u) ==
  IF l.k = "any" \/ u.k = "any" THEN TRUE
  ELSE IF l.k # u.k THEN FALSE
  ELSE CASE l.k = "prim" -> l.n = u.n
         [] l.k = "gen"  -> l.n = u.n
         [] l.k = "nom"  -> l.c = u.c /\ Len(l.ta) = Len(u.ta) /\ \A i \in 1..Len(l.ta) : Assignable(l.ta[i], u.ta[i])
         [] l.k = "fn"   -> /\ Len(l.as) = Len(u.as) /\ \A i \in 1..Len(l.as) : Assignable(l.as[i], u.as[i])
                            /\ Assignable(l.r, u.r)
         [] OTHER -> FALSE
\* [XCR] type_system.rs type_meet: the more specific of two compatible types, or Fail
Meet(l, u) ==
  IF l.k = "any" THEN (IF u.k = "any" THEN AnyT(l.ph /\ u.ph) ELSE u)
  ELSE IF u.k = "any" THEN l
  ELSE IF l.k # u.k THEN Fail
  ELSE CASE l.k = "prim" -> IF l.n = u.n THEN l ELSE Fail
         [] l.k = "gen"  -> IF l.n = u.n THEN l ELSE Fail
         [] l.k = "nom"  -> IF l.c = u.c /\ Len(l.ta) = Len(u.ta)
                            THEN LET ms == [i \in 1..Len(l.ta) |-> Meet(l.ta[i], u.ta[i])] IN
                                 IF \E i \in 1..Len(ms) : ms[i].k = "fail" THEN Fail ELSE Nom(l.c, ms)
                            ELSE Fail
         [] l.k = "fn"   -> IF Len(l.as) = Len(u.as)
                            THEN LET ms == [i \in 1..Len(l.as) |-> Meet(l.as[i], u.as[i])]
                                     mr == Meet(l.r, u.r) IN
                                 IF mr.k = "fail" \/ \E i \in 1..Len(ms) : ms[i].k = "fail" THEN Fail ELSE Fn(ms, mr)
                            ELSE Fail
         [] OTHER -> Fail

\* [XCR] type_hint::Hint -- a hint is passed down raw; it is USED only when it is "valid" (no placeholder inside)
ValidHint(h)   == h.k # "nohint" /\ ~HasPh(h)
NthParam(h, i) == IF h.k = "fn" /\ i <= Len(h.as) THEN h.as[i] ELSE NoHint     \* transform_to_nth_param
RetHint(h)     == IF h.k = "fn" THEN h.r ELSE NoHint                           \* transform_to_return_type

RECURSIVE SolveOne(_, _, _, _), SolveSeq(_, _, _, _), SolveAll(_, _, _)
\* [XCR] type_system.rs solve_type_constraints_internal: the FIRST constraint that reaches an unsolved type
\* parameter with a placeholder-free concrete type decides it; conflicts surface later as assignability errors
SolveOne(c, g, tps, m) ==
  CASE g.k = "gen" -> IF g.n \in tps /\ g.n \notin DOMAIN m /\ ~HasPh(c) THEN (g.n :> c) @@ m ELSE m
    [] g.k = "nom" -> IF c.k = "nom" /\ c.c = g.c /\ Len(c.ta) = Len(g.ta) THEN SolveSeq(c.ta, g.ta, tps, m) ELSE m
    [] g.k = "fn"  -> IF c.k = "fn" THEN SolveOne(c.r, g.r, tps, SolveSeq(c.as, g.as, tps, m)) ELSE m
    [] OTHER -> m
SolveSeq(cs, gs, tps, m) ==      \* zip
  IF cs = <<>> \/ gs = <<>> THEN m ELSE SolveSeq(Tail(cs), Tail(gs), tps, SolveOne(Head(cs), Head(gs), tps, m))
\* solve_multiple_type_constrains; cons: sequence of <<concrete, generic>>
SolveAll(cons, tps, m) == IF cons = <<>> THEN m ELSE SolveAll(Tail(cons), tps, SolveOne(Head(cons)[1], Head(cons)[2], tps, m))
\* the solution completed with `fill` for every unsolved parameter
Completed(m, tpseq, fill) == [n \in Range(tpseq) |-> IF n \in DOMAIN m THEN m[n] ELSE fill]

(* ======================================================================= *)
(* (2) Abstract syntax                                                     *)
(* ======================================================================= *)
IntE(i)   == [k |-> "int", i |-> i]
BoolE(b)  == [k |-> "bool", bv |-> b]
StrE(s)   == [k |-> "str", s |-> s]
Var(n)    == [k |-> "var", n |-> n]
Un(op, e) == [k |-> "un", op |-> op, e |-> e]                       \* ! -
Bin(op, a, b) == [k |-> "bin", op |-> op, a |-> a, b |-> b]         \* + - * < <= == != && || ::
\* if c { a } else { b };  ei (only when b is an `if`): written `else if ..` instead of `else { if .. }` -- the same
\* rule in the language and in this specification, two different paths in check_if_else
IfX(c, a, b, ei) == [k |-> "if", c |-> c, a |-> a, b |-> b, ei |-> ei]
If(c, a, b)   == IfX(c, a, b, FALSE)
Let(n, ann, e, b) == [k |-> "let", n |-> n, ann |-> ann, e |-> e, b |-> b]   \* { let n[: ann] = e; b }
Lam(n, ann, b)    == [k |-> "lam", n |-> n, ann |-> ann, b |-> b]   \* (n[: ann]) -> b     (one parameter)
Call(f, as)       == [k |-> "call", f |-> f, as |-> as]             \* f(as)  -- f any expression
FRef(c, f, ta)    == [k |-> "fref", cls |-> c, fn |-> f, ta |-> ta] \* C.f / C.f<ta>  (a static function, as a value)
Field(e, f)       == [k |-> "field", e |-> e, fld |-> f]            \* e.f
Pair(a, b)        == [k |-> "pair", a |-> a, b |-> b]               \* (a, b)
Match(e, arms)    == [k |-> "match", e |-> e, arms |-> arms]        \* match e { p1 -> b1, ... }
Arm(p, b)         == [p |-> p, b |-> b]
\* patterns: _ | n | Tag | Tag(v1, .., vk) with vi a variable name or "_"
PWild        == [k |-> "wild", n |-> "", vs |-> <<>>]
PId(n)       == [k |-> "id", n |-> n, vs |-> <<>>]
PCtor(t, vs) == [k |-> "ctor", n |-> t, vs |-> vs]

(* ---- the fixed declarations of the program skeleton (checks/typerules.py SKELETON) ------------------
     class P(val a: int, val b: bool) {}
     class Opt(None, Some(int)) {}
     class G {
       function <T> id(x: T): T = x
       function <T> pick(c: bool, a: T, b: T): T = if c { a } else { b }
       function <A, B> app(f: (A) -> B, a: A): B = f(a)
       function <A, B> konst(b: B): (A) -> B = (a) -> b
       function inc(n: int): int = n + 1
     }
   plus the builtin  Process.panic<T>(Str): T  and the generated constructors P.init, Opt.None, Opt.Some;
   Pair<A, B>(val e0: A, val e1: B) is std.tuples' class behind (a, b).                                   *)
Decl(c, f, tp, as, r, ps, body, native) ==
  [cls |-> c, fn |-> f, tp |-> tp, as |-> as, r |-> r, ps |-> ps, body |-> body, native |-> native]
NoBody == IntE(0)
FnTable == {
  Decl("G", "id",    <<"T">>,      <<Gen("T")>>,                     Gen("T"), <<"x">>, Var("x"), ""),
  Decl("G", "pick",  <<"T">>,      <<TBool, Gen("T"), Gen("T")>>,    Gen("T"), <<"c", "a", "b">>, If(Var("c"), Var("a"), Var("b")), ""),
  Decl("G", "app",   <<"A", "B">>, <<Fn(<<Gen("A")>>, Gen("B")), Gen("A")>>, Gen("B"), <<"f", "a">>, Call(Var("f"), <<Var("a")>>), ""),
  Decl("G", "konst", <<"A", "B">>, <<Gen("B")>>, Fn(<<Gen("A")>>, Gen("B")), <<"b">>, Lam("a", NoHint, Var("b")), ""),
  Decl("G", "inc",   <<>>,         <<TInt>>,                         TInt, <<"n">>, Bin("+", Var("n"), IntE(1)), ""),
  Decl("Process", "panic", <<"T">>, <<TStr>>,                        Gen("T"), <<>>, NoBody, "panic"),
  Decl("P", "init",  <<>>,         <<TInt, TBool>>,                  TP,   <<>>, NoBody, "init"),
  Decl("Opt", "None", <<>>,        <<>>,                             TOpt, <<>>, NoBody, "None"),
  Decl("Opt", "Some", <<>>,        <<TInt>>,                         TOpt, <<>>, NoBody, "Some") }
ClassNames == {"G", "P", "Opt", "Process", "Main"}
HasFn(c, f)  == \E d \in FnTable : d.cls = c /\ d.fn = f
FnDecl(c, f) == CHOOSE d \in FnTable : d.cls = c /\ d.fn = f
EnumVariants(c) == IF c = "Opt" THEN << [n |-> "None", a |-> <<>>], [n |-> "Some", a |-> <<TInt>>] >> ELSE <<>>
\* [XCR] the builtin signature declares Str as an enum class without variants (type_.rs create_builtin_module_signature):
\* a variant pattern on a Str is "no such variant", not "not an enum"
IsEnumType(t)   == t.k = "nom" /\ t.c \in {"Opt", "Str"}
\* fields of a value of nominal type t: sequence of [n, t]
StructFields(t) == CASE t.c = "P"    -> << [n |-> "a", t |-> TInt], [n |-> "b", t |-> TBool] >>
                     [] t.c = "Pair" -> << [n |-> "e0", t |-> t.ta[1]], [n |-> "e1", t |-> t.ta[2]] >>
                     [] OTHER -> <<>>

(* ======================================================================= *)
(* (3) The typing judgment                                                 *)
(* ======================================================================= *)
(* ---- name resolution: ssa_analysis.rs, a pass of its own before type checking ---------------------- *)
\* "" = fine, else the first error kind.  B: the names bound in ALL enclosing scopes.
First2(x, y) == IF x # "" THEN x ELSE y
RECURSIVE Scope(_, _), ScopeSeq(_, _), ScopePat(_, _, _), ScopeArms(_, _)
ScopeSeq(es, B) == IF es = <<>> THEN "" ELSE First2(Scope(Head(es), B), ScopeSeq(Tail(es), B))
\* defines the variables of a pattern one after the other; returns [err, B]
ScopePat(vs, B, err) ==
  IF vs = <<>> \/ err # "" THEN [err |-> err, B |-> B]
  ELSE IF Head(vs) = "_" THEN ScopePat(Tail(vs), B, err)
  ELSE IF Head(vs) \in B THEN [err |-> "name-collision", B |-> B]      \* [XCR] define_id: bound in any enclosing scope
  ELSE ScopePat(Tail(vs), B \cup {Head(vs)}, err)
ScopeArms(arms, B) ==
  IF arms = <<>> THEN ""
  ELSE LET p == Head(arms).p
           d == ScopePat(IF p.k = "id" THEN <<p.n>> ELSE p.vs, B, "")
       IN First2(First2(d.err, IF d.err = "" THEN Scope(Head(arms).b, d.B) ELSE ""), ScopeArms(Tail(arms), B))
Scope(e, B) ==
  CASE e.k \in {"int", "bool", "str", "fref"} -> ""
    [] e.k = "var"   -> IF e.n \in B THEN "" ELSE "unresolved-name"          \* [RULE] spec.md 6.2
    [] e.k \in {"un", "field"} -> Scope(e.e, B)
    [] e.k \in {"bin", "pair"} -> First2(Scope(e.a, B), Scope(e.b, B))
    [] e.k = "if"    -> First2(Scope(e.c, B), First2(Scope(e.a, B), Scope(e.b, B)))
    [] e.k = "let"   -> \* the bound expression does not see the new name; the name must be new in every enclosing scope
                        First2(Scope(e.e, B), IF e.n \in B THEN "name-collision" ELSE Scope(e.b, B \cup {e.n}))
    [] e.k = "lam"   -> IF e.n \in B THEN "name-collision" ELSE Scope(e.b, B \cup {e.n})
    [] e.k = "call"  -> First2(Scope(e.f, B), ScopeSeq(e.as, B))
    [] e.k = "match" -> First2(Scope(e.e, B), ScopeArms(e.arms, B))

(* ---- patterns -------------------------------------------------------------------------------------- *)
\* check_matching_pattern against a scrutinee of type t: [err |-> "" | kind, binds |-> name -> type]
BindSeq(vs, ts) == [n \in { vs[i] : i \in { j \in 1..Len(vs) : vs[j] # "_" } } |->
                      ts[CHOOSE i \in 1..Len(vs) : vs[i] = n]]
PatCheck(p, t) ==
  CASE p.k = "wild" -> [err |-> "", binds |-> <<>>]
    [] p.k = "id"   -> [err |-> "", binds |-> (p.n :> t)]
    [] p.k = "ctor" ->
         IF ~IsEnumType(t) THEN [err |-> "not-an-enum", binds |-> <<>>]                    \* [RULE] 8.6
         ELSE LET vsn == EnumVariants(t.c)
                  hit == { i \in 1..Len(vsn) : vsn[i].n = p.n } IN
              IF hit = {} THEN [err |-> "unresolved-member", binds |-> <<>>]                \* [RULE] no such variant
              ELSE LET a == vsn[CHOOSE i \in hit : TRUE].a IN
                   IF Len(p.vs) # Len(a) THEN [err |-> "pattern-arity", binds |-> <<>>]   \* [RULE] all data bound
                   ELSE [err |-> "", binds |-> BindSeq(p.vs, a)]
\* which values of a type a pattern matches -- over the abstract values "None", "Some", "other"
ShapesOf(t) == IF t = TOpt THEN {"None", "Some"} ELSE {"other"}
PatMatchesShape(p, s) == p.k \in {"wild", "id"} \/ (p.k = "ctor" /\ p.n = s)
\* [RULE] spec.md 6.11: every value of the matched type is covered by some arm (sub-patterns are irrefutable here)
Exhaustive(arms, t) == \A s \in ShapesOf(t) : \E i \in 1..Len(arms) : PatMatchesShape(arms[i].p, s)

(* ---- expressions ------------------------------------------------------------------------------------ *)
\* result of checking: the type (or error) and [XCR] whether a placeholder was made on the way
\* (TypingContext.produced_placeholders)
R(t, ph) == [t |-> t, ph |-> ph]
E(kind)  == R(Err(kind), FALSE)

IsEqOp(op) == op \in {"==", "!="}
OperandType(op) == CASE op \in {"+", "-", "*", "<", "<=", ">", ">="} -> TInt
                     [] op \in {"&&", "||"} -> TBool
                     [] op = "::" -> TStr
ResultType(op)  == CASE op \in {"+", "-", "*"} -> TInt
                     [] op = "::" -> TStr
                     [] OTHER -> TBool

RECURSIVE CWH(_)
\* [XCR] arguments_should_be_checked_without_hint: the arguments of a generic call whose type does not depend on context
CWH(e) == CASE e.k \in {"int", "bool", "str", "var", "pair", "field", "fref", "un", "bin"} -> TRUE
            [] e.k = "call"  -> FALSE
            [] e.k = "if"    -> CWH(e.a) /\ CWH(e.b)
            [] e.k = "match" -> \A i \in 1..Len(e.arms) : CWH(e.arms[i].b)
            [] e.k = "lam"   -> e.ann.k # "nohint" /\ CWH(e.b)
            [] e.k = "let"   -> CWH(e.b)

\* check_member_with_unresolved_tparams on `C.f`: [t |-> fn type | error, tps |-> type parameters still open]
Member(fr, h) ==
  IF fr.cls \notin ClassNames THEN [t |-> Err("unresolved-class"), tps |-> <<>>]            \* [RULE] 6.4
  ELSE IF ~HasFn(fr.cls, fr.fn) THEN [t |-> Err("unresolved-member"), tps |-> <<>>]          \* [RULE] 6.6 / 6.7.1
  ELSE LET d == FnDecl(fr.cls, fr.fn)
           ft == Fn(d.as, d.r) IN
    IF fr.ta # <<>> THEN
      IF Len(fr.ta) = Len(d.tp)                                                               \* [RULE] 6.7.4
      THEN [t |-> Subst(ft, [n \in Range(d.tp) |-> fr.ta[CHOOSE i \in 1..Len(d.tp) : d.tp[i] = n]]), tps |-> <<>>]
      ELSE [t |-> Err("targ-arity"), tps |-> <<>>]
    ELSE IF d.tp = <<>> THEN [t |-> ft, tps |-> <<>>]
    ELSE IF ValidHint(h) /\ h.k = "fn" /\ Len(h.as) = Len(d.as) THEN
      \* [XCR] a function value with an expected function type: solve_type_constraints(hint, generic)
      LET m  == Completed(SolveAll(<< <<h, ft>> >>, Range(d.tp), <<>>), d.tp, AnyT(TRUE))
          st == Subst(ft, m) IN
      IF Meet(h, st).k = "fail" THEN [t |-> Err("type-mismatch"), tps |-> <<>>] ELSE [t |-> st, tps |-> <<>>]
    ELSE [t |-> ft, tps |-> d.tp]                  \* [XCR] "give up and let context help us more"

(* Not transcribed (and never observed to matter in the replay): run_in_synthesis_mode does not clear
   TypingContext.produced_placeholders on entry, so once a placeholder was made at some level of a member body
   every later synthesised argument at that level is treated as "unchecked" and checked a second time with a
   hint; the second check of a placeholder-free argument gives the same type.  Here `ph` is the flag of the
   current run only. *)
RECURSIVE Chk(_, _, _, _), ChkArgsNoHint(_, _, _, _), ChkArgsWithParams(_, _, _, _, _, _), Phase1(_, _, _, _, _, _, _, _, _)

\* the arguments of a call whose callee has type `any`: each checked on its own; first error or any
ChkArgsNoHint(G, as, syn, ph) ==
  IF as = <<>> THEN R(AnyT(FALSE), ph)
  ELSE LET r == Chk(G, Head(as), NoHint, syn) IN
       IF IsErr(r.t) THEN r ELSE ChkArgsNoHint(G, Tail(as), syn, ph \/ r.ph)

\* [XCR] a call without open type parameters: every argument is checked with the parameter type as the hint;
\* [RULE] 6.7: then each argument type must be compatible with the parameter type.
\* i: next argument; tys: the argument types so far
ChkArgsWithParams(G, as, ft, syn, tys, ph) ==
  IF Len(tys) = Len(as)
  THEN IF \E i \in 1..Len(as) : ~Assignable(tys[i], ft.as[i]) THEN E("type-mismatch") ELSE R(ft.r, ph)
  ELSE LET i == Len(tys) + 1
           r == Chk(G, as[i], ft.as[i], syn) IN
       IF IsErr(r.t) THEN r ELSE ChkArgsWithParams(G, as, ft, syn, Append(tys, r.t), ph \/ r.ph)

Constraints(ft, tys, h) ==
  [i \in 1..Len(tys) |-> <<tys[i], ft.as[i]>>] \o (IF ValidHint(h) THEN << <<h, ft.r>> >> ELSE <<>>)

\* [XCR] check_function_call_implicit_instantiation, "Phase 1-n": every argument that produced a placeholder
\* in synthesis is checked again, with a hint made from what the OTHER arguments (and the expected result
\* type) already decide.  unc: the set of such arguments; i: the next index.
Phase1(G, as, ft, tps, h, syn, tys, unc, ph) ==
  LET i == IF unc = {} THEN 0 ELSE CHOOSE j \in unc : \A o \in unc : j <= o IN
  IF i = 0 THEN
    \* "Phase n+1": all arguments checked; what is still open has not enough context
    LET m == SolveAll(Constraints(ft, tys, h), Range(tps), <<>>)
        open == \E n \in Range(tps) : n \notin DOMAIN m IN
    IF open /\ ~syn THEN E("underconstrained")             \* [XCR] mk_underconstrained_any_type
    ELSE LET full == Completed(m, tps, AnyT(TRUE))
             st == Subst(ft, full) IN
         IF \E j \in 1..Len(tys) : ~Assignable(tys[j], st.as[j]) THEN E("type-mismatch")      \* [RULE] 6.7
         ELSE R(st.r, ph \/ open)
  ELSE
    LET m == SolveAll(Constraints(ft, tys, h), Range(tps), <<>>)
        open == \E n \in Range(tps) : n \notin DOMAIN m
        best == Subst(ft.as[i], Completed(m, tps, AnyT(TRUE)))       \* solve_type_arguments: unsolved = placeholder
        mt == Meet(tys[i], best)
        r  == Chk(G, as[i], IF mt.k = "fail" THEN NoHint ELSE mt, syn) IN
    IF IsErr(r.t) THEN r
    ELSE Phase1(G, as, ft, tps, h, syn, [tys EXCEPT ![i] = r.t], unc \ {i}, ph \/ open \/ r.ph)

Chk(G, e, h, syn) ==
  CASE e.k = "int"  -> R(TInt, FALSE)
    [] e.k = "bool" -> R(TBool, FALSE)
    [] e.k = "str"  -> R(TStr, FALSE)
    [] e.k = "var"  -> R(G[e.n], FALSE)
    [] e.k = "un" ->                                                  \* [RULE] 6.8
         LET a == Chk(G, e.e, NoHint, syn)
             exp == IF e.op = "!" THEN TBool ELSE TInt IN
         IF IsErr(a.t) THEN a ELSE IF ~Assignable(a.t, exp) THEN E("type-mismatch") ELSE R(exp, a.ph)
    [] e.k = "bin" ->                                                 \* [RULE] 6.9
         LET a == Chk(G, e.a, NoHint, syn) IN
         IF IsErr(a.t) THEN a
         ELSE IF ~IsEqOp(e.op) /\ ~Assignable(a.t, OperandType(e.op)) THEN E("type-mismatch")
         ELSE LET b == Chk(G, e.b, IF IsEqOp(e.op) THEN a.t ELSE NoHint, syn) IN     \* [XCR] == : e1's type is e2's hint
              IF IsErr(b.t) THEN b
              ELSE IF ~Assignable(b.t, IF IsEqOp(e.op) THEN a.t ELSE OperandType(e.op)) THEN E("type-mismatch")
              ELSE R(ResultType(e.op), a.ph \/ b.ph)
    [] e.k = "if" ->
         LET c == Chk(G, e.c, NoHint, syn) IN
         IF IsErr(c.t) THEN c
         ELSE IF IfChecksCond /\ ~Assignable(c.t, TBool) THEN E("type-mismatch")      \* [RULE] 6.10.1 condition is bool
         ELSE LET a == Chk(G, e.a, h, syn) IN                                          \* [XCR] then-branch: the outer hint
              IF IsErr(a.t) THEN a
              ELSE LET b == Chk(G, e.b, a.t, syn) IN                                   \* [XCR] else-branch: then-branch's type
                   IF IsErr(b.t) THEN b
                   ELSE IF ~Assignable(b.t, a.t) THEN E("type-mismatch")               \* [RULE] branches compatible
                   ELSE R(a.t, c.ph \/ a.ph \/ b.ph)
    [] e.k = "let" ->
         LET v == Chk(G, e.e, e.ann, syn) IN                                           \* the annotation is the hint
         IF IsErr(v.t) THEN v
         ELSE IF e.ann.k # "nohint" /\ ~Assignable(v.t, e.ann) THEN E("type-mismatch") \* [RULE] 7.1
         ELSE LET b == Chk((e.n :> v.t) @@ G, e.b, h, syn) IN                          \* [XCR] block: hint to the final expr
              IF IsErr(b.t) THEN b ELSE R(b.t, v.ph \/ b.ph)
    [] e.k = "lam" ->
         \* [XCR] infer_lambda_parameter_types: annotation, else the hint's parameter, else not enough context
         LET hp == NthParam(h, 1)
             pt == IF e.ann.k # "nohint" THEN e.ann ELSE IF ValidHint(hp) THEN hp ELSE NoHint IN
         IF pt.k = "nohint"
         THEN (IF syn THEN R(Fn(<<AnyT(TRUE)>>, AnyT(TRUE)), TRUE)                       \* body not looked at in synthesis
               ELSE E("underconstrained"))
         ELSE LET b == Chk((e.n :> pt) @@ G, e.b, RetHint(h), syn) IN
              IF IsErr(b.t) THEN b ELSE R(Fn(<<pt>>, b.t), b.ph)
    [] e.k = "pair" ->
         LET a == Chk(G, e.a, NoHint, syn) IN
         IF IsErr(a.t) THEN a
         ELSE LET b == Chk(G, e.b, NoHint, syn) IN
              IF IsErr(b.t) THEN b ELSE R(TPair(a.t, b.t), a.ph \/ b.ph)
    [] e.k = "field" ->                                                                \* [RULE] 6.6
         LET o == Chk(G, e.e, NoHint, syn) IN
         IF IsErr(o.t) THEN o
         ELSE IF o.t.k = "any" THEN R(AnyT(FALSE), o.ph)                                \* [XCR]
         ELSE IF o.t.k # "nom" THEN E("not-a-class")
         ELSE LET fs == StructFields(o.t)
                  hit == { i \in 1..Len(fs) : fs[i].n = e.fld } IN
              IF hit = {} THEN E("unresolved-member") ELSE R(fs[CHOOSE i \in hit : TRUE].t, o.ph)
    [] e.k = "fref" ->
         \* a static function used as a value (check_field_access): open type parameters need an expected type
         LET m == Member(e, h) IN
         IF IsErr(m.t) THEN R(m.t, FALSE)
         ELSE IF m.tps = <<>> THEN R(m.t, FALSE)
         ELSE IF syn THEN R(Subst(m.t, Completed(<<>>, m.tps, AnyT(TRUE))), TRUE)
         ELSE E("underconstrained")
    [] e.k = "call" ->
         LET cal == IF e.f.k = "fref"
                    THEN LET m == Member(e.f, NoHint) IN [t |-> m.t, tps |-> m.tps, ph |-> FALSE]
                    ELSE LET r == Chk(G, e.f, NoHint, syn) IN [t |-> r.t, tps |-> <<>>, ph |-> r.ph] IN
         IF IsErr(cal.t) THEN R(cal.t, FALSE)
         ELSE IF cal.t.k = "any" THEN ChkArgsNoHint(G, e.as, syn, cal.ph)              \* [XCR]
         ELSE IF cal.t.k # "fn" THEN E("not-callable")                                 \* [RULE] 6.7.3
         ELSE IF Len(cal.t.as) # Len(e.as) THEN E("arity")                             \* [RULE] 5.13 arity
         ELSE IF cal.tps = <<>> THEN ChkArgsWithParams(G, e.as, cal.t, syn, <<>>, cal.ph)
         ELSE
           \* [XCR] "Phase 0": arguments whose type cannot depend on context are checked as they are; the others
           \* are SYNTHESISED (run_in_synthesis_mode: not enough context gives a placeholder instead of an error)
           LET p0 == [i \in 1..Len(e.as) |->
                        IF CWH(e.as[i]) THEN [r |-> Chk(G, e.as[i], NoHint, syn), unc |-> FALSE]
                        ELSE LET r == Chk(G, e.as[i], NoHint, TRUE) IN [r |-> R(r.t, FALSE), unc |-> r.ph]]
               bad == { i \in 1..Len(e.as) : IsErr(p0[i].r.t) } IN
           IF bad # {} THEN p0[CHOOSE i \in bad : \A j \in bad : i <= j].r
           ELSE Phase1(G, e.as, cal.t, cal.tps, h, syn, [i \in 1..Len(e.as) |-> p0[i].r.t],
                       { i \in 1..Len(e.as) : p0[i].unc }, \E i \in 1..Len(e.as) : p0[i].r.ph)
    [] e.k = "match" ->
         LET s == Chk(G, e.e, NoHint, syn)
             n == Len(e.arms) IN
         IF IsErr(s.t) THEN s
         ELSE LET pc == [i \in 1..n |-> PatCheck(e.arms[i].p, s.t)]
                  \* [XCR] every arm body gets the OUTER hint; the first arm's type is the match's type
                  bs == [i \in 1..n |-> IF pc[i].err # "" THEN E(pc[i].err)
                                        ELSE Chk(pc[i].binds @@ G, e.arms[i].b, h, syn)]
                  \* the first problem in arm order: pattern, body, [RULE] body compatible with the first arm's type
                  armErr == [i \in 1..n |-> IF IsErr(bs[i].t) THEN bs[i].t
                                            ELSE IF ~Assignable(bs[i].t, bs[1].t) THEN Err("type-mismatch")
                                            ELSE NoHint]
                  bad == { i \in 1..n : IsErr(armErr[i]) } IN
              IF bad # {} THEN R(armErr[CHOOSE i \in bad : \A j \in bad : i <= j], FALSE)
              ELSE IF ~Exhaustive(e.arms, s.t) THEN E("non-exhaustive")                \* [RULE] 6.11
              ELSE R(bs[1].t, s.ph \/ \E i \in 1..n : bs[i].ph)

\* the judgment for a closed term in the position `let v = <e>;` (no expected type)
TypeWithHint(e, h) == LET s == Scope(e, {}) IN IF s # "" THEN Err(s) ELSE Chk(<<>>, e, h, FALSE).t
TypeOf(e) == TypeWithHint(e, NoHint)

(* ======================================================================= *)
(* (4) Dynamic semantics (big step, environments; spec.md 6.15)            *)
(* ======================================================================= *)
IntV(i)  == [k |-> "int", i |-> i]
BoolV(b) == [k |-> "bool", bv |-> b]
StrV(s)  == [k |-> "str", s |-> s]
OptV(tag, d) == [k |-> "opt", tag |-> tag, d |-> d]
PV(fs)    == [k |-> "P", fs |-> fs]
PairV(fs) == [k |-> "pair", fs |-> fs]
CloV(n, b, env) == [k |-> "clo", n |-> n, b |-> b, env |-> env]
FnV(c, f) == [k |-> "fnv", cls |-> c, fn |-> f]
Panic(m) == [k |-> "panic", m |-> m]        \* a requested panic: Process.panic(m)
Stuck(w) == [k |-> "stuck", w |-> w]        \* an operation applied to a value of the wrong shape / no arm matches
Impl(w)  == [k |-> "impl", w |-> w]         \* left to the implementation (== on values of class or function type)
IsVal(r) == r.k \notin {"panic", "stuck", "impl"}
IsFnVal(v) == v.k \in {"clo", "fnv"}

PatMatches(p, v) == p.k \in {"wild", "id"} \/ (p.k = "ctor" /\ v.k = "opt" /\ v.tag = p.n /\ Len(v.d) = Len(p.vs))
PatBinds(p, v)   == CASE p.k = "wild" -> <<>>
                      [] p.k = "id" -> (p.n :> v)
                      [] p.k = "ctor" -> BindSeq(p.vs, v.d)

RECURSIVE Ev(_, _), EvArgs(_, _, _), Apply(_, _), EvArms(_, _, _)
\* arguments left to right; the first non-value ends the evaluation
EvArgs(env, as, acc) ==
  IF as = <<>> THEN [ok |-> TRUE, vs |-> acc, r |-> IntV(0)]
  ELSE LET r == Ev(env, Head(as)) IN
       IF ~IsVal(r) THEN [ok |-> FALSE, vs |-> acc, r |-> r] ELSE EvArgs(env, Tail(as), Append(acc, r))
Apply(f, vs) ==
  CASE f.k = "clo" -> IF Len(vs) # 1 THEN Stuck("arity") ELSE Ev((f.n :> vs[1]) @@ f.env, f.b)
    [] f.k = "fnv" ->
         LET d == FnDecl(f.cls, f.fn) IN
         IF Len(vs) # Len(d.as) THEN Stuck("arity")
         ELSE (CASE d.native = ""      -> Ev([n \in Range(d.ps) |-> vs[CHOOSE i \in 1..Len(d.ps) : d.ps[i] = n]], d.body)
                 [] d.native = "panic" -> IF vs[1].k = "str" THEN Panic(vs[1].s) ELSE Stuck("panic-message")
                 [] d.native = "init"  -> PV(vs)
                 [] d.native = "None"  -> OptV("None", <<>>)
                 [] d.native = "Some"  -> OptV("Some", vs))
    [] OTHER -> Stuck("not-callable")
EvArms(env, arms, v) ==
  IF arms = <<>> THEN Stuck("no-arm-matches")
  ELSE IF PatMatches(Head(arms).p, v) THEN Ev(PatBinds(Head(arms).p, v) @@ env, Head(arms).b)   \* first matching arm
  ELSE EvArms(env, Tail(arms), v)
Ev(env, e) ==
  CASE e.k = "int"  -> IntV(e.i)
    [] e.k = "bool" -> BoolV(e.bv)
    [] e.k = "str"  -> StrV(e.s)
    [] e.k = "var"  -> IF e.n \in DOMAIN env THEN env[e.n] ELSE Stuck("unbound-variable")
    [] e.k = "un" ->
         LET a == Ev(env, e.e) IN
         IF ~IsVal(a) THEN a
         ELSE IF e.op = "!" THEN (IF a.k = "bool" THEN BoolV(~a.bv) ELSE Stuck("operand-not-bool"))
         ELSE (IF a.k = "int" THEN IntV(0 - a.i) ELSE Stuck("operand-not-int"))
    [] e.k = "bin" ->
         LET a == Ev(env, e.a) IN
         IF ~IsVal(a) THEN a
         ELSE IF e.op \in {"&&", "||"} THEN
           IF a.k # "bool" THEN Stuck("operand-not-bool")
           ELSE IF a.bv = (e.op = "||") THEN a                                   \* short circuit
           ELSE LET b == Ev(env, e.b) IN
                IF ~IsVal(b) THEN b ELSE IF b.k # "bool" THEN Stuck("operand-not-bool") ELSE b
         ELSE LET b == Ev(env, e.b) IN
           IF ~IsVal(b) THEN b
           ELSE (CASE e.op \in {"+", "-", "*", "<", "<=", ">", ">="} ->
                       IF a.k # "int" \/ b.k # "int" THEN Stuck("operand-not-int")
                       ELSE (CASE e.op = "+" -> IntV(a.i + b.i) [] e.op = "-" -> IntV(a.i - b.i) [] e.op = "*" -> IntV(a.i * b.i)
                               [] e.op = "<" -> BoolV(a.i < b.i) [] e.op = "<=" -> BoolV(a.i <= b.i)
                               [] e.op = ">" -> BoolV(a.i > b.i) [] e.op = ">=" -> BoolV(a.i >= b.i))
                   [] e.op = "::" -> IF a.k # "str" \/ b.k # "str" THEN Stuck("operand-not-str") ELSE StrV(a.s \o b.s)
                   [] IsEqOp(e.op) ->
                       IF IsFnVal(a) /\ IsFnVal(b) THEN Impl("eq-on-functions")
                       ELSE IF a.k # b.k THEN Stuck("eq-on-different-shapes")
                       ELSE IF a.k \notin {"int", "bool", "str"} THEN Impl("eq-on-objects")
                       ELSE BoolV((a = b) = (e.op = "==")))
    [] e.k = "if" ->
         LET c == Ev(env, e.c) IN
         IF ~IsVal(c) THEN c ELSE IF c.k # "bool" THEN Stuck("condition-not-bool")
         ELSE IF c.bv THEN Ev(env, e.a) ELSE Ev(env, e.b)
    [] e.k = "let" -> LET v == Ev(env, e.e) IN IF ~IsVal(v) THEN v ELSE Ev((e.n :> v) @@ env, e.b)
    [] e.k = "lam" -> CloV(e.n, e.b, env)
    [] e.k = "pair" ->
         LET a == Ev(env, e.a) IN
         IF ~IsVal(a) THEN a ELSE LET b == Ev(env, e.b) IN IF ~IsVal(b) THEN b ELSE PairV(<<a, b>>)
    [] e.k = "field" ->
         LET o == Ev(env, e.e) IN
         IF ~IsVal(o) THEN o
         ELSE (CASE o.k = "P" /\ e.fld = "a" -> o.fs[1]
                 [] o.k = "P" /\ e.fld = "b" -> o.fs[2]
                 [] o.k = "pair" /\ e.fld = "e0" -> o.fs[1]
                 [] o.k = "pair" /\ e.fld = "e1" -> o.fs[2]
                 [] OTHER -> Stuck("no-such-field"))
    [] e.k = "fref" -> IF e.cls \in ClassNames /\ HasFn(e.cls, e.fn) THEN FnV(e.cls, e.fn) ELSE Stuck("no-such-function")
    [] e.k = "call" ->
         \* spec.md 6.7.5 / 6.15: arguments left to right, THEN the callee
         LET as == EvArgs(env, e.as, <<>>) IN
         IF ~as.ok THEN as.r
         ELSE LET f == Ev(env, e.f) IN IF ~IsVal(f) THEN f ELSE Apply(f, as.vs)
    [] e.k = "match" -> LET v == Ev(env, e.e) IN IF ~IsVal(v) THEN v ELSE EvArms(env, e.arms, v)

Eval(e) == Ev(<<>>, e)

RECURSIVE HasType(_, _), Show(_)
\* the value v is a value of the (ground) type t; functions: a callable of the right arity (their
\* behaviour is covered by the larger terms that call them)
HasType(v, t) ==
  CASE t.k = "prim" -> v.k = t.n
    [] t.k = "nom" /\ t.c = "Str"  -> v.k = "str"
    [] t.k = "nom" /\ t.c = "Opt"  -> v.k = "opt" /\ ((v.tag = "None" /\ v.d = <<>>) \/
                                                     (v.tag = "Some" /\ Len(v.d) = 1 /\ v.d[1].k = "int"))
    [] t.k = "nom" /\ t.c = "P"    -> v.k = "P" /\ Len(v.fs) = 2 /\ v.fs[1].k = "int" /\ v.fs[2].k = "bool"
    [] t.k = "nom" /\ t.c = "Pair" -> v.k = "pair" /\ Len(v.fs) = 2 /\ HasType(v.fs[1], t.ta[1]) /\ HasType(v.fs[2], t.ta[2])
    [] t.k = "fn" -> (v.k = "clo" /\ Len(t.as) = 1) \/ (v.k = "fnv" /\ Len(FnDecl(v.cls, v.fn).as) = Len(t.as))
    [] OTHER -> FALSE
\* what the skeleton's printer prints for a value (checks/typerules.py show_code)
Show(v) == CASE v.k = "int"  -> IF v.i < 0 THEN "-" \o ToString(0 - v.i) ELSE ToString(v.i)
             [] v.k = "bool" -> IF v.bv THEN "true" ELSE "false"
             [] v.k = "str"  -> v.s
             [] v.k = "opt"  -> IF v.tag = "None" THEN "None" ELSE "Some(" \o Show(v.d[1]) \o ")"
             [] v.k = "P"    -> "P(" \o Show(v.fs[1]) \o "," \o Show(v.fs[2]) \o ")"
             [] v.k = "pair" -> "(" \o Show(v.fs[1]) \o "," \o Show(v.fs[2]) \o ")"
             [] OTHER -> "<fn>"
\* the run the language assigns to the skeleton program around a well-typed term
Outcome(e) == LET r == Eval(e) IN
              CASE r.k = "panic" -> [end |-> "panic", text |-> r.m]
                [] r.k = "impl"  -> [end |-> "impl", text |-> r.w]
                [] r.k = "stuck" -> [end |-> "stuck", text |-> r.w]
                [] OTHER -> [end |-> "value", text |-> Show(r)]

(* ======================================================================= *)
(* (5) Term universes and theorems                                         *)
(* ======================================================================= *)
\* macro leaves: small terms that count as size 1 in a profile, so that the interesting shapes are reachable
LamId    == Lam("x", NoHint, Var("x"))                              \* (x) -> x
LamInc   == Lam("x", TInt, Bin("+", Var("x"), IntE(1)))             \* (x: int) -> x + 1
LamIncU  == Lam("x", NoHint, Bin("+", Var("x"), IntE(1)))           \* (x) -> x + 1
LamNot   == Lam("x", NoHint, Un("!", Var("x")))                     \* (x) -> !x
LamPanic == Lam("x", TInt, Call(FRef("Process", "panic", <<>>), <<StrE("p")>>))   \* (x: int) -> Process.panic("p")
Some1    == Call(FRef("Opt", "Some", <<>>), <<IntE(1)>>)
None0    == Call(FRef("Opt", "None", <<>>), <<>>)
P1       == Call(FRef("P", "init", <<>>), <<IntE(1), BoolE(TRUE)>>)
PanicU   == Call(FRef("Process", "panic", <<>>), <<StrE("p")>>)          \* Process.panic("p")
PanicI   == Call(FRef("Process", "panic", <<TInt>>), <<StrE("p")>>)      \* Process.panic<int>("p")
XPlus1   == Bin("+", Var("x"), IntE(1))
TII      == Fn(<<TInt>>, TInt)
TBI      == Fn(<<TBool>>, TInt)

NoArms == {}
(* A profile fixes the leaves and the constructs of one universe; TR_SIZE bounds the size.  Sizes used by
   checks/typerules.py (quick / thorough):  core 5/6, chain 7/10, data 4/5, fun 5/6, gen 4/5, gend 5/6, mix 3/4,
   tiny 4/5 -- about 0.25 M / 3.4 M terms. *)
Profiles ==
  [ \* operators, if, let with and without annotation -- no functions
    core |-> [ leaves |-> {IntE(0), IntE(1), BoolE(TRUE), StrE("a"), Var("x")},
               unops |-> {"!", "-"}, binops |-> {"+", "*", "<", "==", "&&", "||", "::"},
               fields |-> {}, lamvars |-> {}, lamanns |-> {}, letvars |-> {"x"}, letanns |-> {NoHint, TInt, TBool},
               argcounts |-> {}, ifs |-> TRUE, elseif |-> FALSE, pairs |-> FALSE, arms |-> NoArms ],
    \* else-if chains: a branch that disagrees with the first one, at every position
    chain |-> [ leaves |-> {IntE(1), StrE("a"), BoolE(TRUE)},
               unops |-> {}, binops |-> {},
               fields |-> {}, lamvars |-> {}, lamanns |-> {}, letvars |-> {}, letanns |-> {},
               argcounts |-> {}, ifs |-> TRUE, elseif |-> TRUE, pairs |-> FALSE, arms |-> NoArms ],
    \* struct, enum, match (every arm-set shape), tuples, field access
    data |-> [ leaves |-> {IntE(1), BoolE(TRUE), Var("x"), Some1, None0, P1, FRef("Opt", "Some", <<>>), FRef("P", "init", <<>>),
                           FRef("P", "a", <<>>), FRef("Opt", "Nope", <<>>), FRef("Nope", "f", <<>>)},
               unops |-> {}, binops |-> {"+", "=="},
               fields |-> {"a", "b", "c", "e0"}, lamvars |-> {}, lamanns |-> {}, letvars |-> {"x"}, letanns |-> {NoHint, TOpt},
               argcounts |-> {0, 1, 2}, ifs |-> FALSE, elseif |-> FALSE, pairs |-> TRUE,
               arms |-> { <<PCtor("None", <<>>), PCtor("Some", <<"x">>)>>, <<PCtor("Some", <<"x">>), PCtor("None", <<>>)>>,
                          <<PCtor("Some", <<"x">>)>>, <<PCtor("None", <<>>)>>, <<PWild>>, <<PId("x")>>,
                          <<PCtor("None", <<>>), PWild>>, <<PCtor("Some", <<"_">>), PId("x")>>,
                          <<PCtor("Nope", <<>>), PWild>>, <<PCtor("Some", <<>>), PWild>>, <<PCtor("Some", <<"x", "y">>), PWild>>,
                          <<PCtor("None", <<"x">>), PWild>> } ],
    \* lambdas, calls of lambda-typed values, function-typed lets
    fun  |-> [ leaves |-> {IntE(1), BoolE(TRUE), Var("x"), Var("y"), XPlus1, FRef("G", "inc", <<>>)},
               unops |-> {"!"}, binops |-> {"+"},
               fields |-> {}, lamvars |-> {"x"}, lamanns |-> {NoHint, TInt, TBool}, letvars |-> {"y"},
               letanns |-> {NoHint, TInt, TII, TBI},
               argcounts |-> {0, 1, 2}, ifs |-> TRUE, elseif |-> FALSE, pairs |-> FALSE, arms |-> NoArms ],
    \* generic functions: implicit / explicit type arguments, solving from arguments and from the expected type
    gen  |-> [ leaves |-> {IntE(1), BoolE(TRUE), Var("y"), LamId, LamInc, LamNot, PanicU, PanicI,
                           FRef("G", "id", <<>>), FRef("G", "id", <<TInt>>), FRef("G", "id", <<TInt, TInt>>),
                           FRef("G", "pick", <<>>), FRef("G", "app", <<>>), FRef("G", "app", <<TInt, TInt>>),
                           FRef("G", "konst", <<>>), FRef("G", "konst", <<TBool, TInt>>), FRef("G", "inc", <<TInt>>)},
               unops |-> {}, binops |-> {"+"},
               fields |-> {}, lamvars |-> {}, lamanns |-> {}, letvars |-> {"y"}, letanns |-> {NoHint, TInt, TII},
               argcounts |-> {1, 2, 3}, ifs |-> TRUE, elseif |-> FALSE, pairs |-> FALSE, arms |-> NoArms ],
    \* the same, fewer leaves, one size deeper
    gend |-> [ leaves |-> {IntE(1), BoolE(TRUE), Var("y"), LamId, LamIncU, LamInc, LamPanic, PanicU,
                           FRef("G", "id", <<>>), FRef("G", "pick", <<>>), FRef("G", "app", <<>>), FRef("G", "konst", <<>>)},
               unops |-> {}, binops |-> {},
               fields |-> {}, lamvars |-> {}, lamanns |-> {}, letvars |-> {"y"}, letanns |-> {NoHint, TII},
               argcounts |-> {1, 2, 3}, ifs |-> TRUE, elseif |-> FALSE, pairs |-> FALSE, arms |-> NoArms ],
    \* every construct over a handful of leaves (also the universe of the rule-coverage run)
    tiny |-> [ leaves |-> {IntE(1), BoolE(TRUE), StrE("a"), Var("x"), Some1, P1, LamInc, FRef("G", "id", <<>>)},
               unops |-> {"!"}, binops |-> {"+", "==", "&&", "::"},
               fields |-> {"a"}, lamvars |-> {"x"}, lamanns |-> {NoHint, TInt}, letvars |-> {"x"}, letanns |-> {NoHint, TInt},
               argcounts |-> {0, 1, 2}, ifs |-> TRUE, elseif |-> FALSE, pairs |-> TRUE,
               arms |-> { <<PCtor("None", <<>>), PCtor("Some", <<"x">>)>>, <<PCtor("Some", <<"x">>)>>, <<PWild>> } ],
    \* everything together, shallow: interactions between the constructs
    mix  |-> [ leaves |-> {IntE(0), BoolE(TRUE), StrE("a"), Var("x"), Var("y"), Some1, None0, P1, LamInc, LamId, PanicU,
                           FRef("G", "id", <<>>), FRef("G", "id", <<TBool>>), FRef("G", "pick", <<>>), FRef("G", "app", <<>>),
                           FRef("G", "konst", <<>>), FRef("G", "inc", <<>>), FRef("Opt", "Some", <<>>), FRef("P", "init", <<>>)},
               unops |-> {"!", "-"}, binops |-> {"+", "<", "==", "&&", "::"},
               fields |-> {"a", "e1"}, lamvars |-> {"x"}, lamanns |-> {NoHint, TInt}, letvars |-> {"y"},
               letanns |-> {NoHint, TInt, TII, TOpt},
               argcounts |-> {0, 1, 2}, ifs |-> TRUE, elseif |-> FALSE, pairs |-> TRUE,
               arms |-> { <<PCtor("None", <<>>), PCtor("Some", <<"x">>)>>, <<PCtor("Some", <<"x">>)>>, <<PWild>>, <<PId("x")>> } ] ]
Pf == Profiles[Profile]

Splits2(m) == { <<i, m - i>> : i \in 1..(m - 1) }
Splits3(m) == { s \in { <<i, j, m - i - j>> : i \in 1..(m - 2), j \in 1..(m - 2) } : s[3] >= 1 }
Splits4(m) == { s \in { <<i, j, l, m - i - j - l>> : i \in 1..(m - 3), j \in 1..(m - 3), l \in 1..(m - 3) } : s[4] >= 1 }
ArmsOfLen(n) == { a \in Pf.arms : Len(a) = n }
Has(k) == k \in Pf.argcounts

\* Size = number of nodes, a (macro) leaf counting 1.  Every term other than a leaf has a FIRST child
\* (operand, bound expression, condition, callee, scrutinee, lambda body); the state graph is the forest
\* "t -> the terms whose first child is t", so that every term of size <= MaxSize is one state, reached once,
\* and the workers share the enumeration.  Tab[j]: all terms of size exactly j, for the OTHER children.
OtherMax == IF MaxSize >= 3 THEN MaxSize - 2 ELSE 0
\* Built[<<c, s>>]: the terms of size exactly m = s + 1 + (sizes of the other children) with first child c
WithFirst(c, S1, S2, S3, arity) ==
  \* arity 0: no other child; S1/S2/S3: the sets the other children range over
  CASE arity = 0 ->
            { Un(op, c) : op \in Pf.unops } \cup { Field(c, f) : f \in Pf.fields }
       \cup { Lam(x, a, c) : x \in Pf.lamvars, a \in Pf.lamanns }
       \cup (IF Has(0) THEN { Call(c, <<>>) } ELSE {})
    [] arity = 1 ->
            { Bin(op, c, b) : op \in Pf.binops, b \in S1 }
       \cup { Let(x, an, c, b) : x \in Pf.letvars, an \in Pf.letanns, b \in S1 }
       \cup (IF Pf.pairs THEN { Pair(c, b) : b \in S1 } ELSE {})
       \cup (IF Has(1) THEN { Call(c, <<b>>) : b \in S1 } ELSE {})
       \cup { Match(c, <<Arm(ps[1], b)>>) : ps \in ArmsOfLen(1), b \in S1 }
    [] arity = 2 ->
            (IF Pf.ifs THEN { If(c, a, b) : a \in S1, b \in S2 } ELSE {})
       \cup (IF Pf.elseif THEN { IfX(c, a, b, TRUE) : a \in S1, b \in { x \in S2 : x.k = "if" } } ELSE {})
       \cup (IF Has(2) THEN { Call(c, <<a, b>>) : a \in S1, b \in S2 } ELSE {})
       \cup { Match(c, <<Arm(ps[1], a), Arm(ps[2], b)>>) : ps \in ArmsOfLen(2), a \in S1, b \in S2 }
    [] arity = 3 ->
            (IF Has(3) THEN { Call(c, <<a, b, d>>) : a \in S1, b \in S2, d \in S3 } ELSE {})
\* the terms of size exactly n, as a recursive function (used for Tab only)
TermsOf[n \in 1..MaxSize] ==
  IF n = 1 THEN Pf.leaves
  ELSE UNION { WithFirst(c, {}, {}, {}, 0) : c \in TermsOf[n - 1] }
  \cup UNION { UNION { WithFirst(c, TermsOf[s[2]], {}, {}, 1) : c \in TermsOf[s[1]] } : s \in Splits2(n - 1) }
  \cup UNION { UNION { WithFirst(c, TermsOf[s[2]], TermsOf[s[3]], {}, 2) : c \in TermsOf[s[1]] } : s \in Splits3(n - 1) }
  \cup UNION { UNION { WithFirst(c, TermsOf[s[2]], TermsOf[s[3]], TermsOf[s[4]], 3) : c \in TermsOf[s[1]] } : s \in Splits4(n - 1) }
Tab == [j \in 1..OtherMax |-> TermsOf[j]]
\* the successors of the term c of size s: [t, n]
ParentsOf(c, s) ==
  LET room == MaxSize - s - 1 IN     \* size left for the other children
  IF room < 0 THEN {}
  ELSE { [t |-> x, n |-> s + 1] : x \in WithFirst(c, {}, {}, {}, 0) }
  \cup UNION { { [t |-> x, n |-> s + 1 + j] : x \in WithFirst(c, Tab[j], {}, {}, 1) } : j \in 1..room }
  \cup UNION { { [t |-> x, n |-> s + 1 + q[1] + q[2]] : x \in WithFirst(c, Tab[q[1]], Tab[q[2]], {}, 2) }
              : q \in { q \in (1..room) \X (1..room) : q[1] + q[2] <= room } }
  \cup UNION { { [t |-> x, n |-> s + 1 + q[1] + q[2] + q[3]] : x \in WithFirst(c, Tab[q[1]], Tab[q[2]], Tab[q[3]], 3) }
              : q \in { q \in (1..room) \X (1..room) \X (1..room) : q[1] + q[2] + q[3] <= room } }

VARIABLES t, n, ty      \* the term, its size, and TypeOf(t) (kept in the state so that it is computed once)
vars == <<t, n, ty>>
Init == /\ t \in Pf.leaves /\ n = 1 /\ ty = TypeOf(t)
Next == \E p \in ParentsOf(t, n) : t' = p.t /\ n' = p.n /\ ty' = TypeOf(p.t)
Spec == Init /\ [][Next]_vars

\* THEOREM (type soundness on the fragment; C03's design-level content): a term the judgment gives a type
\* never gets stuck, and when it yields a value the value has that type.
Sound == ~IsErr(ty) => LET r == Eval(t) IN r.k # "stuck" /\ (IsVal(r) => HasType(r, ty))
\* a result is a type of the language: no `any`, no placeholder, no type parameter survives
GroundResult == ~IsErr(ty) => Ground(ty)
ErrorKindKnown == IsErr(ty) => ty.kind \in HardKinds \cup SoftKinds
\* TypeOf is a function of the term alone: the inferred type, given back as the expected type, and the
\* checker's synthesis mode change nothing on a term that needs no context
Deterministic ==
  ~IsErr(ty) => /\ TypeWithHint(t, ty) = ty
                /\ Chk(<<>>, t, NoHint, TRUE).t = ty
\* C13 (design level), AnnotateLet: writing the inferred type on a let changes neither the verdict nor the type
AnnotateLetStable ==
  (t.k = "let" /\ t.ann.k = "nohint" /\ Scope(t, {}) = "") =>
    LET vt == TypeOf(t.e) IN
    ~IsErr(vt) => TypeOf([t EXCEPT !.ann = vt]) = ty

\* one JSON line per term for the replay on the real checker and compiler
Verdict == [term |-> t, size |-> n, ty |-> ty, out |-> IF IsErr(ty) THEN [end |-> "none", text |-> ""] ELSE Outcome(t)]
Emit == EmitOn => PrintT(<<"CASE", ToJson(Verdict)>>)
=============================================================================
