----------------------------- MODULE PatternsTrace -----------------------------
(***************************************************************************)
(* C07, second pass: what the REAL checker said about every arm list that  *)
(* Patterns.tla enumerated (harness/src/patterns.rs rendered each as a     *)
(* `match`, and one-arm lists also as a destructuring `let` and as an      *)
(* `if let`, type-checked the module with samlang_checker and recorded the *)
(* diagnostics) is judged here, by the SEMANTIC definitions of Patterns.tla *)
(* (Vals / Matches / SemExhaustive / SemIrrefutable / CexSound) only.      *)
(*                                                                         *)
(* One record per line of IOEnv.TRACE:                                     *)
(*   [form |-> "match"|"let"|"iflet", arms |-> <<pattern>>,                *)
(*    obs |-> [nonexh |-> BOOLEAN,   \* non-exhaustive diagnostic present  *)
(*             cex |-> pattern parsed from the diagnostic's text,          *)
(*             useless |-> BOOLEAN,  \* "pattern is irrefutable" present   *)
(*             panic |-> STRING]]                                          *)
(* Records are independent; the state is the index l of a record (and its  *)
(* arm list), the indices are visited as a binary tree so that workers     *)
(* share the evaluation.  The invariants up to UselessIffIrrefutable are   *)
(* the verdict; Drift never fails: it reports where the transcribed        *)
(* algorithm of Patterns.tla predicts something else than the code did.    *)
(***************************************************************************)
EXTENDS Patterns

Rec == ndJsonDeserialize(IOEnv.TRACE)
N   == Len(Rec)

VARIABLE l
TInit == l = 1 /\ arms = Rec[1].arms
TNext == \E m \in {2 * l, 2 * l + 1} : m <= N /\ l' = m /\ arms' = Rec[m].arms

E == Rec[l]
MatchLike == E.form \in {"match", "let"}
\* accepted = the checker reports nothing about the patterns of this match / let
Accepted == ~E.obs.nonexh /\ ~E.obs.useless

NoPanic == E.obs.panic = ""
\* "A match (or destructuring let) is accepted if and only if every value of the scrutinee's type is
\*  matched by at least one arm"
AcceptedIffExhaustive == MatchLike => (Accepted = SemExhaustive(arms, Root))
\* "when it is rejected, the reported counterexample denotes a value that indeed no arm matches"
CounterexampleSound == (MatchLike /\ E.obs.nonexh) => CexSound(arms, E.obs.cex, Root)
\* "An if-let pattern is flagged as useless exactly when it matches every value"
UselessIffIrrefutable == E.form = "iflet" => (E.obs.useless = SemIrrefutable(arms[1], Root))

\* model drift: the transcription of pattern_matching.rs predicts the very same answers
StrictOK ==
  /\ MatchLike => /\ E.obs.nonexh = ~AlgExhaustive(arms, Root)
                  /\ E.obs.nonexh => E.obs.cex = AlgCex(arms, Root).v
                  /\ ~E.obs.useless
  /\ E.form = "iflet" => /\ E.obs.useless = AlgIrrefutable(arms[1], Root)
                         /\ ~E.obs.nonexh
Drift == StrictOK \/ PrintT(<<"DRIFT", l>>)

AllJudged == TLCGet("stats").distinct = N
=============================================================================
