------------------------------ MODULE ScopeGen ------------------------------
(***************************************************************************)
(* Enumerates the bounded space of Scope.tla: one structure per initial    *)
(* state (ph = 0); its single successor (ph = 1) is where the invariants   *)
(* are evaluated, so that the workers share the work.                      *)
(*  - ScopeMC*.cfg  (Directed = FALSE): every structure, well-scoped or    *)
(*    not; RT = the checker's walk (Alg) agrees with the semantics;        *)
(*    GenOK = the directed generator yields exactly the well-scoped ones   *)
(*    (compared up to cost CompleteUpTo).                                  *)
(*  - ScopeGen*.cfg (Directed = TRUE): the well-scoped structures, printed *)
(*    one JSON line each for the replay on the real language services      *)
(*    (harness: vh scope-run), again under RT.                             *)
(***************************************************************************)
EXTENDS Scope, Json

CONSTANTS MaxCost,      \* bound on the number of scope events
          Directed,     \* TRUE: well-scoped structures only
          CompleteUpTo  \* GenOK compares the two generators up to this cost (0: skip)

VARIABLES f, ph

Init == f \in Funs(Directed, MaxCost) /\ ph = 0
Next == ph = 0 /\ ph' = 1 /\ f' = f

RT       == ph = 1 => AlgEqSem(f)
GenSound == (ph = 1 /\ Directed) => WellScoped(Occ(f))
\* evaluated once, on the smallest structure
GenOK    == (ph = 1 /\ CompleteUpTo > 0 /\ f.params = <<>> /\ f.body.items = <<>> /\ f.body.fin = Lit)
              => GenComplete(CompleteUpTo)
\* always TRUE: one line per structure
Emit == ph = 1 => PrintT(<<"BEHAVIOUR", ToJson([t |-> f, nocc |-> Len(Occ(f))])>>)

\* vacuity (reported, never failing): the census of the space
Kinds(occ) == { occ[j].b : j \in DOMAIN occ }
Census ==
  ph = 1 =>
    LET occ == Occ(f)
        ws  == WellScoped(occ)
        \* two bindings of one name (sibling scopes) in a well-scoped structure
        reuse == ws /\ \E a, b \in DOMAIN occ : a < b /\ IsBind(occ[a]) /\ IsBind(occ[b]) /\ occ[a].n = occ[b].n
    IN PrintT(<<"CENSUS", IF ws THEN 1 ELSE 0, IF reuse THEN 1 ELSE 0, IF "alt" \in Kinds(occ) THEN 1 ELSE 0, Len(occ)>>)

\* development aid
Dbg == RT \/ PrintT(<<"RTFAIL", f, Occ(f), Alg(f), WellScoped(Occ(f))>>)
=============================================================================
