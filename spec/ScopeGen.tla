------------------------------ MODULE ScopeGen ------------------------------
(***************************************************************************)
(* Enumerates the bounded space of Scope.tla, one structure per state (the *)
(* state is an index into the sequence of structures, visited as a binary  *)
(* tree so that workers share the work).                                   *)
(*  - ScopeMC*.cfg  (Directed = FALSE): every structure, well-scoped or    *)
(*    not; invariant RT = the checker's walk agrees with the semantics;    *)
(*    GenOK = the directed generator is sound and complete (small bound).  *)
(*  - ScopeGen*.cfg (Directed = TRUE): the well-scoped structures, printed *)
(*    one JSON line each for the replay on the real language services      *)
(*    (harness: vh scope-run), again with RT.                              *)
(***************************************************************************)
EXTENDS Scope, Json, SequencesExt

CONSTANTS MaxCost,    \* bound on the number of scope events
          Directed,   \* TRUE: well-scoped structures only
          CompleteUpTo \* GenOK compares the two generators up to this cost

VARIABLE i

FunSeq == SetToSeq(Funs(Directed, MaxCost))
N == Len(FunSeq)
F == FunSeq[i]

Init == i = 1
Next == \E m \in {2 * i, 2 * i + 1} : m <= N /\ i' = m

RT == AlgEqSem(F)
GenSound == Directed => WellScoped(Occ(F))
GenOK == i # 1 \/ GenComplete(CompleteUpTo)
\* always TRUE: one line per structure
Emit == PrintT(<<"BEHAVIOUR", ToJson([t |-> F, nocc |-> Len(Occ(F))])>>)
\* vacuity: how many structures are ill-scoped / have a sibling reuse / an or-pattern
Ill == ~WellScoped(Occ(F))
\* development aid
Dbg == RT \/ PrintT(<<"RTFAIL", F, Occ(F), Alg(F), WellScoped(Occ(F))>>)
AllVisited == TLCGet("stats").distinct = N
=============================================================================
