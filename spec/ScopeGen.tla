------------------------------ MODULE ScopeGen ------------------------------
(***************************************************************************)
(* Enumerates the bounded space of the binder structures of Scope.tla as   *)
(* the leftmost derivations of their grammar: a state is a function with   *)
(* open positions -- `hole` (an expression still to be chosen) and `more`  *)
(* (the rest of a block: another item, or the final expression) -- and a   *)
(* step fills the first open position.  Every structure is reached by      *)
(* exactly one derivation, so the complete states (no open position) are   *)
(* the structures, each once.  cost = number of scope events: every node   *)
(* except lit; the function's own block is free; a parameter costs 1.      *)
(*                                                                         *)
(* Directed = TRUE: an open position carries the set `env` of names in     *)
(* scope there; a binder takes a name outside env, a use a name inside --  *)
(* only well-scoped structures arise (GenSound), and all of them (the      *)
(* check compares the count with the well-scoped ones of the free space).  *)
(* Directed = FALSE: any name anywhere -- the space contains the           *)
(* ill-scoped structures too.                                              *)
(*                                                                         *)
(* On every complete state: RT = the checker's walk (Scope!Alg) agrees     *)
(* with the semantics (accepts iff well-scoped, same use->binding map).    *)
(* ScopeGen*.cfg print one JSON line per structure for the replay on the   *)
(* real language services (harness: vh scope-run).                         *)
(***************************************************************************)
EXTENDS Scope, Json

CONSTANTS MaxCost,      \* bound on the number of scope events
          Directed,     \* TRUE: well-scoped structures only
          Canonical     \* (with Directed) TRUE: one structure of every class of structures that are equal up to
                        \* a permutation of Names -- along the derivation a binder takes a name introduced
                        \* before or the LEAST name not yet introduced

VARIABLES f,            \* [params, body], possibly with open positions
          left,         \* MaxCost - cost of f
          used          \* the names introduced so far (Canonical; otherwise {})

Hole(env) == [k |-> "hole", env |-> env]
More(env) == [k |-> "more", env |-> env]
None      == [k |-> "none"]

Ext(env, xs) == IF Directed THEN env \cup (xs \ {Wild}) ELSE {}
Ord == <<"a", "b", "c", "d", "e">>
ASSUME Names \subseteq { Ord[i] : i \in DOMAIN Ord }
ASSUME Canonical => Directed
LeastFresh(u) == LET c == { i \in DOMAIN Ord : Ord[i] \in Names \ u }
                 IN IF c = {} THEN {} ELSE { Ord[CHOOSE i \in c : \A j \in c : i <= j] }
\* the names a binder under env may take, u = the names introduced so far
BindN(env, u) == IF ~Directed THEN Names
                 ELSE IF Canonical THEN (u \ env) \cup LeastFresh(u \cup env)
                 ELSE Names \ env
UseN(env)    == IF Directed THEN env ELSE Names
\* pairs of binders chosen together (the second sees the first as introduced)
Pairs(env, u, distinct, wild2) ==
  { q \in UNION { { <<x, y>> : y \in BindN(env, u \cup {x}) \cup (IF wild2 THEN {Wild} ELSE {}) } : x \in BindN(env, u) } :
      distinct => q[1] # q[2] }

\* the expression children of a node, in the order in which they are filled
Kids(t) == CASE t.k = "lam0" -> <<"body">>
             [] t.k = "lam" -> <<"body", "arg">>
             [] t.k = "lam2" -> <<"body", "a1", "a2">>
             [] t.k = "mat" -> <<"scrut", "ba", "bb">>
             [] t.k \in {"mor", "mor3"} -> <<"scrut", "body">>
             [] t.k = "ifl" -> <<"scrut", "th", "el">>
             [] t.k = "let" -> <<"init">>
             [] t.k \in {"ltup", "lstr"} -> <<"i1", "i2">>
             [] OTHER -> <<>>

\* the first open position of t (its hole / more record), or None
RECURSIVE Open(_), OpenSeq(_, _), OpenKids(_, _, _)
Open(t) ==
  IF t.k \in {"hole", "more"} THEN t
  ELSE IF t.k = "blk" THEN LET o == OpenSeq(t.items, 1) IN IF o.k # "none" THEN o ELSE Open(t.fin)
  ELSE OpenKids(t, Kids(t), 1)
OpenSeq(s, i) == IF i > Len(s) THEN None
                 ELSE LET o == Open(s[i]) IN IF o.k # "none" THEN o ELSE OpenSeq(s, i + 1)
OpenKids(t, ks, i) == IF i > Len(ks) THEN None
                      ELSE LET o == Open(t[ks[i]]) IN IF o.k # "none" THEN o ELSE OpenKids(t, ks, i + 1)

\* t with its first open position filled by `new`:
\*   [kind |-> "expr", e |-> expression]              for a hole, or as the final expression of a block
\*   [kind |-> "item", it |-> item, more |-> More(..)] one more item of a block
RECURSIVE Plug(_, _), PlugSeq(_, _, _), PlugKids(_, _, _, _)
Plug(t, new) ==
  IF t.k = "hole" THEN new.e
  ELSE IF t.k = "blk" THEN
         IF OpenSeq(t.items, 1).k # "none" THEN [t EXCEPT !.items = PlugSeq(@, 1, new)]
         ELSE IF t.fin.k = "more"
              THEN IF new.kind = "item" THEN [t EXCEPT !.items = Append(@, new.it), !.fin = new.more]
                   ELSE [t EXCEPT !.fin = new.e]
              ELSE [t EXCEPT !.fin = Plug(@, new)]
  ELSE PlugKids(t, Kids(t), 1, new)
PlugSeq(s, i, new) == IF Open(s[i]).k # "none" THEN [s EXCEPT ![i] = Plug(@, new)] ELSE PlugSeq(s, i + 1, new)
PlugKids(t, ks, i, new) == IF Open(t[ks[i]]).k # "none" THEN [t EXCEPT ![ks[i]] = Plug(@, new)]
                           ELSE PlugKids(t, ks, i + 1, new)

\* the items of a block under env (their initialisers are evaluated outside the item's own bindings)
\* pattern pairs: two distinct names, or a name and a wildcard
ItemShapes(env, u) ==
  { [k |-> "let", x |-> x, init |-> Hole(env)] : x \in BindN(env, u) \cup {Wild} }
  \cup { [k |-> kk, x |-> xy[1], y |-> xy[2], i1 |-> Hole(env), i2 |-> Hole(env)] :
           kk \in {"ltup", "lstr"}, xy \in Pairs(env, u, TRUE, TRUE) }
  \cup { [k |-> "lstr", x |-> Wild, y |-> y, i1 |-> Hole(env), i2 |-> Hole(env)] : y \in BindN(env, u) }
ItemBinds(it) == IF it.k = "let" THEN {it.x} ELSE {it.x, it.y}

\* what an expression hole under env can become with budget b: [cost, expression, names it binds]
ExprChoices(env, u, b) ==
  { <<0, Lit, {}>> }
  \cup (IF b < 1 THEN {} ELSE
        { <<1, Use(x), {}>> : x \in UseN(env) }
        \cup { <<1, [k |-> "lam0", body |-> Hole(env)], {}>> }
        \cup { <<1, [k |-> "lam", x |-> x, body |-> Hole(Ext(env, {x})), arg |-> Hole(env)], {x}>> : x \in BindN(env, u) }
        \* (two distinct parameters, like the pattern pairs)
        \cup { <<1, [k |-> "lam2", x |-> xy[1], y |-> xy[2], body |-> Hole(Ext(env, {xy[1], xy[2]})),
                                    a1 |-> Hole(env), a2 |-> Hole(env)], {xy[1], xy[2]}>> : xy \in Pairs(env, u, TRUE, FALSE) }
        \cup { <<1, [k |-> "mat", scrut |-> Hole(env), x |-> xy[1], ba |-> Hole(Ext(env, {xy[1]})),
                                   y |-> xy[2], bb |-> Hole(Ext(env, {xy[2]}))], {xy[1], xy[2]}>> : xy \in Pairs(env, u, FALSE, FALSE) }
        \cup { <<1, [k |-> "mor", scrut |-> Hole(env), x |-> x, body |-> Hole(Ext(env, {x}))], {x}>> : x \in BindN(env, u) }
        \cup { <<1, [k |-> "mor3", scrut |-> Hole(env), x |-> x, body |-> Hole(Ext(env, {x}))], {x}>> : x \in BindN(env, u) }
        \cup { <<1, [k |-> "ifl", x |-> x, scrut |-> Hole(env), th |-> Hole(Ext(env, {x})), el |-> Hole(env)], {x}>> :
                 x \in BindN(env, u) })
  \* a nested block has at least one item
  \cup (IF b < 2 THEN {} ELSE
        { <<2, [k |-> "blk", items |-> <<it>>, fin |-> More(Ext(env, ItemBinds(it)))], ItemBinds(it) \ {Wild}>> :
            it \in ItemShapes(env, u) })

\* [cost, replacement, names it binds] for the open position o
Choices(o, u, b) ==
  IF o.k = "hole" THEN { <<c[1], [kind |-> "expr", e |-> c[2]], c[3]>> : c \in ExprChoices(o.env, u, b) }
  ELSE { <<0, [kind |-> "expr", e |-> Hole(o.env)], {}>> }
       \cup (IF b < 1 THEN {} ELSE
             { <<1, [kind |-> "item", it |-> it, more |-> More(Ext(o.env, ItemBinds(it)))], ItemBinds(it) \ {Wild}>> :
                 it \in ItemShapes(o.env, u) })

\* the parameters: sequences of distinct names of length 0..2
ParamSeqs == IF Canonical
             THEN {<<>>} \cup { <<x>> : x \in LeastFresh({}) }
                  \cup { <<x, y>> : x \in LeastFresh({}), y \in LeastFresh(LeastFresh({})) }
             ELSE {<<>>} \cup { <<x>> : x \in Names }
                  \cup { <<q[1], q[2]>> : q \in { r \in Names \X Names : r[1] # r[2] } }

Init == \E ps \in { q \in ParamSeqs : Len(q) <= MaxCost } :
          /\ f = [params |-> ps, body |-> [k |-> "blk", items |-> <<>>, fin |-> More(Ext({}, {ps[j] : j \in DOMAIN ps}))]]
          /\ left = MaxCost - Len(ps)
          /\ used = IF Canonical THEN {ps[j] : j \in DOMAIN ps} ELSE {}
Next == LET o == Open(f.body)
        IN /\ o.k # "none"
           /\ \E c \in Choices(o, used, left) : /\ f' = [f EXCEPT !.body = Plug(@, c[2])]
                                                /\ left' = left - c[1]
                                                /\ used' = IF Canonical THEN used \cup c[3] ELSE {}

Complete == Open(f.body).k = "none"

\* [RT] on every structure of the space.  While the code lacks the repair of the nested or-pattern
\* (NestedOrFixed = FALSE, an open known finding) its walk is known to differ from the semantics on the
\* structures that contain one: they are counted (KnownRegion), the real services are judged on them
\* by ScopeTrace.tla.
RT       == Complete => (AlgEqSem(f) \/ (~NestedOrFixed /\ HasMor3(f.body)))
\* without the allowance (used once to see that the model exhibits the finding)
RTstrict == Complete => AlgEqSem(f)
KnownRegion == (Complete /\ ~NestedOrFixed /\ HasMor3(f.body)) =>
                 PrintT(<<"REGION", IF AlgEqSem(f) THEN 1 ELSE 0>>)
GenSound == (Complete /\ Directed) => WellScoped(Occ(f))
\* always TRUE: one line per structure
\* (with the places where the spelling varies, the cost, and the names in text order: the check picks the
\* form vectors to replay and one structure per class of structures equal up to a permutation of Names)
Emit == Complete => PrintT(<<"BEHAVIOUR", ToJson([t |-> f, nocc |-> Len(Occ(f)), slots |-> Slots(f),
                                                  cost |-> MaxCost - left])>>)
\* the spellings of each kind of place, once
EmitForms == (f.body.items = <<>> /\ f.body.fin.k = "more" /\ f.params = <<>>) =>
               PrintT(<<"FORMS", ToJson([kk \in SlotKinds |-> FormSeq(kk)])>>)

\* the ill-scoped structures of the free space (a sample is shown to the real checker: it must reject them)
EmitIll == (Complete /\ ~WellScoped(Occ(f))) => PrintT(<<"ILL", ToJson([t |-> f])>>)

\* vacuity (reported, never failing): the census of the space --
\* well-scoped?, a name bound twice (sibling scopes)?, an or-pattern?, number of occurrences
Census ==
  Complete =>
    LET occ == Occ(f)
        ws  == WellScoped(occ)
        reuse == ws /\ \E a, b \in DOMAIN occ : a < b /\ IsBind(occ[a]) /\ IsBind(occ[b]) /\ occ[a].n = occ[b].n
        alt == \E a \in DOMAIN occ : occ[a].b = "alt"
    IN PrintT(<<"CENSUS", IF ws THEN 1 ELSE 0, IF reuse THEN 1 ELSE 0, IF alt THEN 1 ELSE 0, Len(occ)>>)

\* development aid
Dbg == RT \/ PrintT(<<"RTFAIL", f, Occ(f), Alg(f), WellScoped(Occ(f))>>)
=============================================================================
