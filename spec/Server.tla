------------------------------ MODULE Server ------------------------------
(***************************************************************************)
(* The language-server state of samlang                                    *)
(* (crates/samlang-services/src/server_state.rs, dep_graph.rs):            *)
(* sources, module signatures (global_cx), the set of checked modules and  *)
(* the cached diagnostics, mutated by Init / Update / Rename / Remove.     *)
(* One action per public call; inside an action the same steps as the      *)
(* code, in the same order (patch sources and signatures, rebuild the      *)
(* import graph, compute the affected set on the graph the code uses at    *)
(* that point, re-check exactly that set, overwrite the cached errors of   *)
(* the re-checked modules only).                                           *)
(*                                                                         *)
(* Contents are abstract but meaningful: what a module declares, what it   *)
(* imports and uses, whether it has an own type error / a syntax error.    *)
(* FreshErrors is defined from the sources alone.                          *)
(*                                                                         *)
(* C10:  \A m : ErrsOf(m) = FreshErrors(m)                                 *)
(* C11a: every request's precondition on the map domains holds             *)
(***************************************************************************)
EXTENDS Integers, Sequences, FiniteSets, TLC

CONSTANTS Mods,          \* all module names (including ones that are only ever imported)
          Writable,      \* the module names that can have a source (Writable \subseteq Mods)
          Contents,      \* the pool of abstract contents
          \* --- deviations of the code from the intended design, as named switches ---
          RenameMovesSignature,  \* TRUE: rename_module moves the old signature (the pinned tree)
          RecheckDropsSyntaxErrors, \* TRUE: re-checking a module that was not re-parsed forgets its syntax errors
          FormatNeedsErrsEntry   \* TRUE: format_entire_document unwraps errors.get(m)

NoSrc == [none |-> TRUE]
NoSig == [nosig |-> TRUE]
Absent == {<<"absent", "absent">>}    \* errs[m] when `errors` has no entry for m

(* A content: [syn, decl, imp, own, self]
     syn  : BOOLEAN                  the text does not parse (and declares / imports nothing)
     decl : [n, v]                   declares class K<n> whose f() has version v ("v0": int, "v1": Str);
                                     n = "none": no declaration
     imp  : SUBSET Names             `import { K<x> } from x` and a use `K<x>.f()` in an int context
     own  : BOOLEAN                  an own type error
     self : BOOLEAN                  the declared class has members whose signature mentions the class *)

VARIABLES src,      \* [Mods -> Contents \cup {NoSrc}]        string_sources / parsed_modules
          sig,      \* [Mods -> Sig \cup {NoSig}]             global_cx
          checked,  \* SUBSET Mods                            DOMAIN checked_modules
          errs,     \* [Mods -> SUBSET Err \cup Absent]       errors
          lastRecheck  \* the recheck set of the last edit (observed through hook H2)

vars == <<src, sig, checked, errs, lastRecheck>>

HasSrc(s, m) == s[m] # NoSrc

\* build_module_signature(m, parsed): what importers can see, and for which module it was built
NoDecl == [n |-> "none", v |-> "none"]
SigOf(m, c) == [decl |-> IF c.syn THEN NoDecl ELSE c.decl, for |-> m, self |-> (~c.syn /\ c.self)]

-----------------------------------------------------------------------------
(* The checker, abstractly: errors of module m with content c under signatures sg *)
ImportErrors(c, sg, x) ==
  IF sg[x] = NoSig THEN {<<"nomodule", x>>, <<"unresolved", x>>}
  ELSE IF sg[x].decl.n # x THEN {<<"noexport", x>>, <<"unresolved", x>>}
  ELSE IF sg[x].decl.v = "v1" THEN {<<"mismatch", x>>}
  ELSE {}

TypeErrors(m, c, sg) ==
  IF c.syn THEN {}
  ELSE UNION { ImportErrors(c, sg, x) : x \in c.imp }
       \cup (IF c.own THEN {<<"own", m>>} ELSE {})
       \* a signature built for another module makes the class's own members disagree with it
       \cup (IF sg[m] # NoSig /\ sg[m].for # m /\ sg[m].self THEN {<<"stale", m>>} ELSE {})

SyntaxErrors(m, c) == IF c.syn THEN {<<"syntax", m>>} ELSE {}

\* what a freshly started server reports for m
FreshSig == [x \in Mods |-> IF HasSrc(src, x) THEN SigOf(x, src[x]) ELSE NoSig]
FreshErrors(m) ==
  IF HasSrc(src, m) THEN SyntaxErrors(m, src[m]) \cup TypeErrors(m, src[m], FreshSig) ELSE {}

ErrsOf(m) == IF errs[m] = Absent THEN {} ELSE errs[m]

-----------------------------------------------------------------------------
(* DependencyGraph::new / affected_set *)
Fwd(s, m) == IF HasSrc(s, m) /\ ~s[m].syn THEN s[m].imp ELSE {}
Rev(s, m) == { x \in Mods : m \in Fwd(s, x) }

RECURSIVE Closure(_, _, _)
\* transitive_set: least set containing `seed` closed under `step` (step: module -> set)
Closure(step, seed, acc) ==
  LET new == (seed \cup UNION { step[m] : m \in seed }) \ acc IN
  IF new = {} THEN acc ELSE Closure(step, new, acc \cup new)

Affected(s, dirty) ==
  LET rev == [m \in Mods |-> Rev(s, m)]
      fwd == [m \in Mods |-> Fwd(s, m)]
  IN Closure(fwd, Closure(rev, dirty, {}), {})

-----------------------------------------------------------------------------
(* recheck(error_set, recheck_set) on already-patched src / sig *)
\* reparsed: modules whose text was parsed by this very edit (their syntax errors are in error_set)
Recheck(s, sg, ck, er, R, reparsed) ==
  LET errOf(m) ==
        IF HasSrc(s, m)
        THEN TypeErrors(m, s[m], sg)
             \cup (IF m \in reparsed \/ ~RecheckDropsSyntaxErrors THEN SyntaxErrors(m, s[m]) ELSE {})
        ELSE {}
  IN
  /\ checked' = ck \cup { m \in R : HasSrc(s, m) }
  \* every re-parsed module is a seed of the affected set, so its syntax errors land in R's entries
  /\ errs' = [m \in Mods |-> IF m \in R THEN errOf(m) ELSE er[m]]
  /\ lastRecheck' = R

Init ==
  /\ src \in { f \in [Mods -> Contents \cup {NoSrc}] : \A m \in Mods \ Writable : f[m] = NoSrc }
  /\ sig = [m \in Mods |-> IF HasSrc(src, m) THEN SigOf(m, src[m]) ELSE NoSig]
  /\ checked = { m \in Mods : HasSrc(src, m) }
  \* group_errors: only modules that have at least one error get an entry
  /\ errs = [m \in Mods |-> IF FreshErrors(m) = {} THEN Absent ELSE FreshErrors(m)]
  /\ lastRecheck = {}

\* update(updates): U is a function from a non-empty set of modules to contents
Update(U) ==
  LET D    == DOMAIN U
      src1 == [m \in Mods |-> IF m \in D THEN U[m] ELSE src[m]]
      sig1 == [m \in Mods |-> IF m \in D THEN SigOf(m, U[m]) ELSE sig[m]]
      R    == Affected(src1, D)            \* on the NEW graph
  IN /\ src' = src1
     /\ sig' = sig1
     /\ Recheck(src1, sig1, checked, errs, R, D)

\* rename_module(renames): P is a sequence of <<old, new>> pairs, applied in order
RECURSIVE ApplyRenames(_, _, _, _, _)
ApplyRenames(P, s, sg, ck, rp) ==
  IF P = <<>> THEN <<s, sg, ck, rp>>
  ELSE LET o == Head(P)[1]
           n == Head(P)[2]
       IN IF HasSrc(s, o)
          THEN \* remove the old entries first, then insert the new ones: a rename of a module onto itself
               \* (o = n) re-parses it and rebuilds its signature, it does not delete it
               ApplyRenames(Tail(P),
                 [[s EXCEPT ![o] = NoSrc] EXCEPT ![n] = s[o]],
                 [[sg EXCEPT ![o] = NoSig] EXCEPT ![n] = IF RenameMovesSignature THEN sg[o] ELSE SigOf(n, s[o])],
                 ck \ {o}, rp \cup {n})
          ELSE ApplyRenames(Tail(P), s, sg, ck \ {o}, rp)

Rename(P) ==
  LET seeds == { P[i][1] : i \in 1..Len(P) } \cup { P[i][2] : i \in 1..Len(P) }
      R     == Affected(src, seeds)        \* on the OLD graph
      r     == ApplyRenames(P, src, sig, checked, {})
  IN /\ src' = r[1]
     /\ sig' = r[2]
     /\ Recheck(r[1], r[2], r[3], errs, R, r[4])

\* remove(module_references)
Remove(S) ==
  LET R    == Affected(src, S)             \* on the OLD graph
      src1 == [m \in Mods |-> IF m \in S THEN NoSrc ELSE src[m]]
      sig1 == [m \in Mods |-> IF m \in S THEN NoSig ELSE sig[m]]
  IN /\ src' = src1
     /\ sig' = sig1
     /\ Recheck(src1, sig1, checked \ S, errs, R, {})

Functions1(D) == UNION { [S -> Contents] : S \in { {m} : m \in D } }
Functions2(D) == UNION { [S -> Contents] : S \in { {a, b} : a, b \in D } }

Next ==
  \/ \E U \in Functions2(Writable) : Update(U)
  \/ \E o, n \in Writable : Rename(<< <<o, n>> >>)                          \* including o = n
  \/ \E o1, n1, o2, n2 \in Writable : o1 # o2 /\ Rename(<< <<o1, n1>>, <<o2, n2>> >>)
  \/ \E S \in (SUBSET Writable) \ {{}} : Remove(S)

Spec == Init /\ [][Next]_vars

-----------------------------------------------------------------------------
(* Properties *)
C10 == \A m \in Mods : ErrsOf(m) = FreshErrors(m)

\* bookkeeping the requests rely on
SigDomain     == \A m \in Mods : HasSrc(src, m) <=> sig[m] # NoSig
SigBuiltFor   == \A m \in Mods : sig[m] # NoSig => sig[m] = SigOf(m, src[m])
CheckedDomain == \A m \in Mods : HasSrc(src, m) => m \in checked
\* C11a (format): format_entire_document(m) finds an `errors` entry whenever m has a parsed module
FormatSafe    == FormatNeedsErrsEntry => \A m \in Mods : HasSrc(src, m) => errs[m] # Absent
\* the re-check set is what the design asks for: at least every module whose fresh errors can have changed
RecheckCovers == [][\A m \in Mods : FreshErrors(m)' # FreshErrors(m) => m \in lastRecheck']_vars
=============================================================================
