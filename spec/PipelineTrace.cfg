SPECIFICATION TraceSpec
CONSTANTS
  Modules = {}
  FaultKinds = {}
  SyntaxKinds = {"int-range"}
  MaxFaults = 0
  LexicalChecked = TRUE
INVARIANTS TraceNoCrash TraceRefusedLocated TraceEmittedClean TraceNoArtefactUnlessEmitted TraceFaultyRefused
POSTCONDITION AllConsumed
CHECK_DEADLOCK FALSE
