SPECIFICATION Spec
CONSTANTS
  Cands <- CandsAEZ
  InitKinds <- InitAEZ
  OpKinds = {"foo", "nofoo", "broken"}
  MaxOps = 1
INVARIANTS ReplayAgrees LastOpEffect ExportersLive Emit
