---------------------------- MODULE CommentsTrace ----------------------------
(* Judges the observations recorded by `vh comments-run / comments-files / comments-one` (one JSON
   object per line, file IOEnv.TRACE) against Comments.tla.  Every record is an initial state, so
   the records are judged independently and in parallel.

   Verdict:  Comments!Holds(rec) - every comment of x is in F(x) with the same words, in
   ExpectedOrder; F(F(x)) = F(x); F(x) parses.  A record that fails is printed with its failures
   (kind and blamed slot classes); the driver script only compares those classes with the list of
   known findings.

   Drift (never a verdict): for template cases the expected order and the slot classes computed by
   CommentsGen from the model are compared with what this module computes from the attachment and
   the productions the real parser reported. *)
EXTENDS Comments, Json, IOUtils

Rec == ndJsonDeserialize(IOEnv.TRACE)
N == Len(Rec)

VARIABLE l

Init == l \in 1..N
Next == UNCHANGED l

RECURSIVE SeqOf(_)
SeqOf(A) == IF A = {} THEN <<>> ELSE LET x == CHOOSE y \in A : TRUE IN <<x>> \o SeqOf(A \ {x})

Judge ==
  LET rec == Rec[l]
      fs == Failures(rec)
  IN  \/ fs = {}
      \/ PrintT(<<"FAIL", ToJson([l |-> l, id |-> rec.id,
                                  f |-> SeqOf({[kind |-> f.kind, cls |-> SeqOf(f.cls)] : f \in fs})])>>)

(* Holds and Failures agree (the blame never hides or invents a failure) *)
VerdictConsistent ==
  LET rec == Rec[l]
  IN  rec.base_clean => (Holds(rec) <=> Failures(rec) = {})

ModelDrift ==
  LET rec == Rec[l]
      ord == ExpectedOrder(rec.cm, rec.imps)
      insOrd == SelectSeq(ord, LAMBDA i : rec.cm[i].ins)
      exp == [q \in 1..Len(insOrd) |-> rec.cm[insOrd[q]].ws[1]]
      ins == SelectSeq([i \in 1..Len(rec.cm) |-> i], LAMBDA i : rec.cm[i].ins)
      cls == [q \in 1..Len(ins) |-> rec.cm[ins[q]].cls]
  IN  \/ "exp_model" \notin DOMAIN rec
      \/ "cls_model" \notin DOMAIN rec
      \/ (exp = rec.exp_model /\ cls = rec.cls_model)
      \/ PrintT(<<"DRIFT", ToJson([l |-> l, id |-> rec.id, exp |-> exp, cls |-> cls])>>)
=============================================================================
