SPECIFICATION Spec
CONSTANTS
  Modules = {"A", "B", "C"}
  FaultKinds = {"int-range", "operand-type", "private-member", "match-nonexhaustive"}
  SyntaxKinds = {"int-range"}
  MaxFaults = 3
  LexicalChecked = FALSE
INVARIANTS TypeOK InvC06 InvSyntaxKept
CHECK_DEADLOCK FALSE
