SPECIFICATION TraceSpec
CONSTANTS
  InProgressIsPointer = FALSE
  Payloads = {}
INVARIANTS ExpectationIsSpec PrintedOK
POSTCONDITION AllConsumed
CHECK_DEADLOCK FALSE
