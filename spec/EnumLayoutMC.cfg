SPECIFICATION Spec
CONSTANTS
  InProgressIsPointer = FALSE
  Payloads <- PayloadsFull
INVARIANTS Sound
CHECK_DEADLOCK FALSE
