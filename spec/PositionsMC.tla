---------------------------- MODULE PositionsMC ----------------------------
(***************************************************************************)
(* Model checking of the position machine of Positions.tla on all          *)
(* documents of at most MaxLen abstract characters.  The machine reads one *)
(* character per step (as the lexer's `next_line_or_column` does per byte) *)
(* and may mark the current position as a token boundary; consecutive      *)
(* marks are token locations, and a node location is the `union` of token  *)
(* locations (source_parser.rs).  Invariants: the incremental machine is   *)
(* the functional PosAfter; PosAfter is compositional; the lexer's column  *)
(* shortcut and the run-length form agree with it; offset <-> position     *)
(* conversion round-trips; every machine position lies inside the          *)
(* document; and locations built from marks satisfy part B (start <= end,  *)
(* inside the document, tokens pairwise disjoint, a union encloses its     *)
(* parts).  Monotone is an action property.                                *)
(***************************************************************************)
EXTENDS Positions, TLC

CONSTANTS Alphabet, MaxLen, MaxMarks

VARIABLES doc,    \* characters read so far
          pos,    \* the machine's position
          off,    \* bytes read so far
          marks   \* positions marked as token boundaries, in order
vars == <<doc, pos, off, marks>>

Init == doc = <<>> /\ pos = Origin /\ off = 0 /\ marks = <<>>

Read(c) == /\ Len(doc) < MaxLen
           /\ doc' = Append(doc, c)
           /\ pos' = Step(pos, c)
           /\ off' = off + Width(c)
           /\ UNCHANGED marks

Mark == /\ Len(marks) < MaxMarks
        /\ marks' = Append(marks, pos)
        /\ UNCHANGED <<doc, pos, off>>

\* nothing left to do (keeps TLC's deadlock check quiet)
Done == Len(doc) = MaxLen /\ Len(marks) = MaxMarks /\ UNCHANGED vars

Next == (\E c \in Alphabet : Read(c)) \/ Mark \/ Done

Spec == Init /\ [][Next]_vars

----------------------------------------------------------------------------
Lens == LineLens(doc)

MachineIsPosAfter == pos = PosAfter(Origin, doc) /\ off = ByteLen(doc)

Compositional ==
  \A k \in 0..Len(doc) :
    LET a == SubSeq(doc, 1, k)  b == SubSeq(doc, k + 1, Len(doc))
    IN /\ PosAfter(PosAfter(Origin, a), b) = PosAfter(Origin, a \o b)
       /\ ByteLen(a) + ByteLen(b) = ByteLen(doc)
       \* shifting the start shifts lines, and columns of the first line only
       /\ \A p \in {<<0, 0>>, <<2, 3>>} :
            LET q == PosAfter(p, b)  q0 == PosAfter(Origin, b)
            IN q = IF HasNewline(b) THEN <<p[1] + q0[1], q0[2]>> ELSE <<p[1], p[2] + q0[2]>>

ColumnShortcut ==
  \A k \in 0..Len(doc) :
    LET a == SubSeq(doc, 1, k)  b == SubSeq(doc, k + 1, Len(doc))
    IN ~HasNewline(b) => PosAfter(PosAfter(Origin, a), b) = ColumnAdvance(PosAfter(Origin, a), b)

\* run-length encoding of a sequence (maximal runs)
RECURSIVE Rle(_)
Rle(s) == IF s = <<>> THEN <<>>
          ELSE LET n == CHOOSE n \in 1..Len(s) :
                          /\ \A i \in 1..n : s[i] = s[1]
                          /\ (n < Len(s) => s[n + 1] # s[1])
               IN <<<<s[1], n>>>> \o Rle(SubSeq(s, n + 1, Len(s)))
RunForm == /\ AdvanceRuns(Origin, Rle(doc)) = pos
           /\ \A c \in Alphabet : \A n \in 1..3 : PosAfter(pos, Repeat(c, n)) = AdvanceRun(pos, <<c, n>>)

RoundTrip ==
  /\ off \in Boundaries(doc)
  /\ \A o \in Boundaries(doc) :
       LET p == PosOf(o, doc)
       IN /\ OffsetOf(p, doc) = o
          /\ InsideLens(p, Lens)
  /\ PosOf(off, doc) = pos
  /\ OffsetOf(pos, doc) = off
  \* every position inside the document whose offset is a character boundary is a machine position
  /\ \A l \in 0..(Len(Lens) - 1) : \A c \in 0..Lens[l + 1] :
       OffsetOf(<<l, c>>, doc) \in Boundaries(doc) => PosOf(OffsetOf(<<l, c>>, doc), doc) = <<l, c>>
  \* the document ends where the line view says it does
  /\ pos = <<Len(Lens) - 1, Lens[Len(Lens)]>>
  /\ LineStart(Lens, Len(Lens)) = off + 1

StrictlyMonotoneOffsets ==
  \A o1, o2 \in Boundaries(doc) : o1 < o2 => PosLt(PosOf(o1, doc), PosOf(o2, doc))

\* token locations = consecutive pairs of marks; node locations = unions of token locations
TokenLocs == {MkLoc(marks[2 * i - 1], marks[2 * i]) : i \in 1..(Len(marks) \div 2)}
TokenSeq == [i \in 1..(Len(marks) \div 2) |-> MkLoc(marks[2 * i - 1], marks[2 * i])]
UnionsWellFormed ==
  /\ \A t \in TokenLocs : StartLeEnd(t) /\ InsideDocument(t, Lens)
  /\ \A i, j \in 1..Len(TokenSeq) : i < j => Disjoint(TokenSeq[i], TokenSeq[j])
  /\ \A a, b \in TokenLocs :
       LET u == Union(a, b)
       IN /\ Encloses(u, a) /\ Encloses(u, b) /\ StartLeEnd(u) /\ InsideDocument(u, Lens)
          /\ Union(b, a) = u
          /\ \A c \in TokenLocs : Encloses(Union(u, c), u)
  \* a flat tree built from the marks: node 1 = union of everything, children = the tokens
  /\ Len(TokenSeq) > 0 =>
       LET all == FoldLeft(Union, TokenSeq[1], TokenSeq)
           nodes == <<<<0, all[1], all[2], all[3], all[4], "node", "">>>> \o
                    [i \in 1..Len(TokenSeq) |-> <<1, TokenSeq[i][1], TokenSeq[i][2], TokenSeq[i][3], TokenSeq[i][4], "tok", "">>]
       IN /\ NotInsideDocument(nodes, Lens) = {}
          /\ NotStartLeEnd(nodes) = {}
          /\ NotEnclosedByParent(nodes) = {}
          /\ OverlappingSiblings(nodes, <<[i \in 1..Len(TokenSeq) |-> i + 1]>>) = {}

Monotone == [][PosLe(pos, pos') /\ off <= off' /\ (doc' # doc => PosLt(pos, pos') /\ off < off')]_vars

\* slicing the line view (one character per byte) at a machine range gives the bytes read in between
TextOf(d) == LET flat == FoldLeft(LAMBDA acc, c : IF c = "n" THEN Append(acc, "")
                                 ELSE [acc EXCEPT ![Len(acc)] = @ \o
                                       (CASE c = "o" -> "a" [] c = "t" -> "\t" [] c = "r" -> "\r"
                                          [] c = "m2" -> "##" [] c = "m3" -> "###" [] OTHER -> "####")],
                               <<"">>, d)
             IN flat
SliceMatches ==
  \A k \in 0..Len(doc) :
    LET a == SubSeq(doc, 1, k)  b == SubSeq(doc, k + 1, Len(doc))
        loc == MkLoc(PosAfter(Origin, a), pos)
    IN ~HasNewline(b) =>
         /\ Len(Slice(TextOf(doc), loc)) = ByteLen(b)
         /\ Slice(TextOf(doc), loc) = TextOf(b)[1]
=============================================================================
