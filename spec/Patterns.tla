----------------------------- MODULE Patterns -----------------------------
(***************************************************************************)
(* C07 -- exhaustiveness and usefulness analysis of patterns is exact.     *)
(*                                                                         *)
(* One module holds                                                        *)
(*   (1) a family of type universes (class declarations of samlang, incl.  *)
(*       generic, recursive, struct and single-variant ones),              *)
(*   (2) the SEMANTICS: values, `Matches(p, v)`, `SemExhaustive`,          *)
(*       `SemIrrefutable` -- plain quantification over values,             *)
(*   (3) a transcription of the code: the lowering of source patterns to   *)
(*       abstract pattern nodes (main_checker.rs check_matching_pattern)   *)
(*       and the matrix algorithm of samlang-checker/src/                  *)
(*       pattern_matching.rs (usefulness, specialisation, default matrix,  *)
(*       signature completeness, counterexample construction),             *)
(*   (4) the state space: every list of arms (up to a bound) drawn from a  *)
(*       pattern pool generated from the declarations; the invariants say  *)
(*       Alg = Sem and that the counterexample is sound.                   *)
(*                                                                         *)
(* PatternsTrace.tla judges what the REAL checker answered on the same arm *)
(* lists with the definitions of part (2) only.                            *)
(***************************************************************************)
EXTENDS Integers, Sequences, FiniteSets, TLC, Json, IOUtils

Env(name, default) == IF name \in DOMAIN IOEnv THEN IOEnv[name] ELSE default
\* the universe and the bounds are chosen by the check through the environment
U        == Env("C07_U", "E")
MaxArms  == atoi(Env("C07_ARMS", "2"))     \* longest arm list
FullArms == atoi(Env("C07_FULL", "2"))     \* lists longer than this have at most one arm outside the Lite pool
EmitOn   == Env("C07_EMIT", "0") = "1"     \* print every arm list as a JSON case for the replay on the real checker

(* ---- type universes ---------------------------------------------------- *)
\* A type is [c |-> class or type-parameter name, ta |-> type arguments].
Ty(c, ta) == [c |-> c, ta |-> ta]
T0(c)     == Ty(c, <<>>)
\* A class is an enum (sequence of variants n(a1, .., ak)) or a struct: one constructor without a tag
\* (the code's `variant: None`) whose arguments are the fields f, in declaration order.
EV(n, a)          == [n |-> n, a |-> a, f |-> <<>>]
Enum(tp, vs)      == [kind |-> "enum", tp |-> tp, vs |-> vs]
Struct(tp, f, a)  == [kind |-> "struct", tp |-> tp, vs |-> << [n |-> "", a |-> a, f |-> f] >>]
FDecl   == Enum(<<>>, << EV("X", <<>>), EV("Y", <<>>) >>)
OptDecl == Enum(<<"T">>, << EV("None", <<>>), EV("Some", <<T0("T")>>) >>)
Opt(t)  == Ty("Opt", <<t>>)

\* slack: every type of the universe has a value of depth <= slack (checked by SlackOK)
\* alpha: all variant names in the order of samlang's PStr (byte-lexicographic for short names); the
\*        check verifies that the sequence is sorted, the spec that it is complete (AlphaOK).
\* dl, df: depth of the or-free patterns of the Lite / Full pool
Universes ==
  [ E |-> [ root |-> T0("E"), slack |-> 1, dl |-> 2, df |-> 2, alpha |-> <<"A", "B", "C", "X", "Y">>,
            decls |-> [ F |-> FDecl,
                        E |-> Enum(<<>>, << EV("A", <<>>), EV("B", <<T0("E")>>), EV("C", <<T0("F")>>) >>) ] ],
    \* declaration order differs from name order; a variant with two arguments; recursion
    M |-> [ root |-> T0("M"), slack |-> 1, dl |-> 2, df |-> 1, alpha |-> <<"Abc", "Mid", "X", "Y", "Zed">>,
            decls |-> [ F |-> FDecl,
                        M |-> Enum(<<>>, << EV("Zed", <<>>), EV("Mid", <<T0("F"), T0("F")>>), EV("Abc", <<T0("M")>>) >>) ] ],
    \* a struct of enums: tuple patterns and object patterns (fields by name, any order)
    P |-> [ root |-> T0("P"), slack |-> 2, dl |-> 2, df |-> 2, alpha |-> <<"X", "Y">>,
            decls |-> [ F |-> FDecl,
                        P |-> Struct(<<>>, <<"a", "b">>, <<T0("F"), T0("F")>>) ] ],
    \* a generic enum nested three times: Opt<Opt<Opt<F>>>
    O |-> [ root |-> Opt(Opt(Opt(T0("F")))), slack |-> 1, dl |-> 4, df |-> 3, alpha |-> <<"None", "Some", "X", "Y">>,
            decls |-> [ F |-> FDecl, Opt |-> OptDecl ] ],
    \* a single-variant enum (destructuring let of a variant)
    W |-> [ root |-> T0("W"), slack |-> 2, dl |-> 2, df |-> 2, alpha |-> <<"None", "Only", "Some", "X", "Y">>,
            decls |-> [ F |-> FDecl, Opt |-> OptDecl,
                        W |-> Enum(<<>>, << EV("Only", <<T0("F"), Opt(T0("F"))>>) >>) ] ],
    \* a generic struct (what std.tuples.Pair is) instantiated with an enum and a generic enum
    T |-> [ root |-> Ty("Pair", <<T0("F"), Opt(T0("F"))>>), slack |-> 2, dl |-> 3, df |-> 2, alpha |-> <<"None", "Some", "X", "Y">>,
            decls |-> [ F |-> FDecl, Opt |-> OptDecl,
                        Pair |-> Struct(<<"A", "B">>, <<"e0", "e1">>, <<T0("A"), T0("B")>>) ] ],
    \* recursion through a struct
    N |-> [ root |-> T0("N"), slack |-> 2, dl |-> 2, df |-> 2, alpha |-> <<"Leaf", "Node", "X", "Y">>,
            decls |-> [ F |-> FDecl,
                        Q |-> Struct(<<>>, <<"l", "f">>, <<T0("N"), T0("F")>>),
                        N |-> Enum(<<>>, << EV("Leaf", <<>>), EV("Node", <<T0("Q")>>) >>) ] ] ]

Uni   == Universes[U]
Decls == Uni.decls
Root  == Uni.root
Slack == Uni.slack

Range(s) == { s[i] : i \in 1..Len(s) }
Max(S) == IF S = {} THEN 0 ELSE CHOOSE m \in S : \A x \in S : x <= m

RECURSIVE Subst(_, _, _)
\* typing_context.rs resolve_type_definition: type parameters replaced by the type arguments
Subst(ty, tp, ta) ==
  IF \E i \in 1..Len(tp) : tp[i] = ty.c THEN ta[CHOOSE i \in 1..Len(tp) : tp[i] = ty.c]
  ELSE Ty(ty.c, [i \in 1..Len(ty.ta) |-> Subst(ty.ta[i], tp, ta)])
\* constructors of a type: sequence of [n |-> tag, f |-> field names, a |-> argument types]
Ctors(t) ==
  LET d == Decls[t.c] IN
  [i \in 1..Len(d.vs) |-> [n |-> d.vs[i].n, f |-> d.vs[i].f,
                           a |-> [j \in 1..Len(d.vs[i].a) |-> Subst(d.vs[i].a[j], d.tp, t.ta)]]]
HasCtor(t, tag) == \E i \in 1..Len(Decls[t.c].vs) : Decls[t.c].vs[i].n = tag
CtorOf(t, tag)  == LET cs == Ctors(t) IN cs[CHOOSE i \in 1..Len(cs) : cs[i].n = tag]
IsStruct(t)     == Decls[t.c].kind = "struct"
FieldPos(c, name) == CHOOSE j \in 1..Len(Decls[c].vs[1].f) : Decls[c].vs[1].f[j] = name

(* ---- values ------------------------------------------------------------ *)
V(c, tag, args) == [c |-> c, tag |-> tag, args |-> args]
RECURSIVE Vals(_, _), ValSeqs(_, _)
ValSeqs(ts, d) == IF ts = <<>> THEN {<<>>}
                  ELSE { <<h>> \o r : h \in Vals(Head(ts), d), r \in ValSeqs(Tail(ts), d) }
\* all values of type t of depth <= d
Vals(t, d) == IF d = 0 THEN {}
              ELSE LET cs == Ctors(t) IN
                   UNION { { V(t.c, cs[i].n, as) : as \in ValSeqs(cs[i].a, d - 1) } : i \in 1..Len(cs) }

\* the values of the root type are needed for every arm list: computed once (a constant definition)
ValsTable == [d \in 0..8 |-> Vals(Root, d)]
ValsOf(t, d) == IF t = Root /\ d \in DOMAIN ValsTable THEN ValsTable[d] ELSE Vals(t, d)

(* ---- source patterns ---------------------------------------------------- *)
Wild              == [k |-> "wild"]
Var               == [k |-> "var"]                                   \* an identifier pattern
Variant(tag, args) == [k |-> "variant", tag |-> tag, args |-> args]    \* Tag(p1, .., pk) / Tag
Tuple(args)       == [k |-> "tuple", args |-> args]                  \* (p1, .., pk) on a struct class
Obj(names, args)  == [k |-> "obj", names |-> names, args |-> args]   \* { f1 as p1, .., fk as pk }
Or(ps)            == [k |-> "or", ps |-> ps]                         \* p1 | .. | pk

RECURSIVE Matches(_, _)
\* THE semantic definition: does value v match pattern p
Matches(p, v) ==
  CASE p.k \in {"wild", "var"} -> TRUE
    [] p.k = "variant" -> p.tag = v.tag /\ Len(p.args) = Len(v.args)
                          /\ \A i \in 1..Len(p.args) : Matches(p.args[i], v.args[i])
    [] p.k = "tuple"   -> v.tag = "" /\ Len(p.args) = Len(v.args)
                          /\ \A i \in 1..Len(p.args) : Matches(p.args[i], v.args[i])
    [] p.k = "obj"     -> v.tag = "" /\ \A i \in 1..Len(p.args) : Matches(p.args[i], v.args[FieldPos(v.c, p.names[i])])
    [] p.k = "or"      -> \E i \in 1..Len(p.ps) : Matches(p.ps[i], v)

RECURSIVE Depth(_)
Depth(p) == CASE p.k \in {"wild", "var"} -> 0
              [] p.k \in {"variant", "tuple", "obj"} -> 1 + Max({ Depth(p.args[i]) : i \in 1..Len(p.args) })
              [] p.k = "or" -> Max({ Depth(p.ps[i]) : i \in 1..Len(p.ps) })
DepthOf(arms) == Max({ Depth(arms[i]) : i \in 1..Len(arms) })

RECURSIVE WellTyped(_, _)
\* the patterns the checker accepts without any other diagnostic (all fields / arguments mentioned)
WellTyped(p, t) ==
  CASE p.k \in {"wild", "var"} -> TRUE
    [] p.k = "variant" -> /\ ~IsStruct(t) /\ HasCtor(t, p.tag)
                          /\ LET a == CtorOf(t, p.tag).a IN
                             Len(p.args) = Len(a) /\ \A i \in 1..Len(a) : WellTyped(p.args[i], a[i])
    [] p.k = "tuple"   -> /\ IsStruct(t)
                          /\ LET a == Ctors(t)[1].a IN
                             Len(p.args) = Len(a) /\ \A i \in 1..Len(a) : WellTyped(p.args[i], a[i])
    [] p.k = "obj"     -> /\ IsStruct(t)
                          /\ LET c == Ctors(t)[1] IN
                             /\ Len(p.names) = Len(c.f) /\ Len(p.args) = Len(c.f) /\ Range(p.names) = Range(c.f)
                             /\ \A i \in 1..Len(p.args) : WellTyped(p.args[i], c.a[FieldPos(t.c, p.names[i])])
    [] p.k = "or"      -> Len(p.ps) >= 2 /\ \A i \in 1..Len(p.ps) : WellTyped(p.ps[i], t)
    [] OTHER           -> FALSE        \* e.g. a counterexample text that is not a pattern at all

(* ---- the property, semantically ----------------------------------------- *)
\* Patterns of depth <= d inspect the constructors of a value at levels 1..d only, and every type has
\* a value of depth <= Slack: an unmatched value exists iff one of depth <= d + Slack exists.
\* (Slack >= 1: "all values of the type up to the patterns' depth + 1".)
SemUncovered(arms, t) ==
  { v \in ValsOf(t, DepthOf(arms) + Slack) : \A i \in 1..Len(arms) : ~Matches(arms[i], v) }
SemExhaustive(arms, t) == SemUncovered(arms, t) = {}
\* an if-let pattern is useless (irrefutable) iff it matches every value
SemIrrefutable(p, t) == \A v \in ValsOf(t, Depth(p) + Slack) : Matches(p, v)
\* The reported counterexample c is a pattern; it stands for all values it matches.  If one of them
\* only had to be unmatched, `_` would be a correct report for every inexhaustive match and the
\* property would say nothing: every value it denotes must be unmatched, and it must denote one.
CexSound(arms, c, t) ==
  LET vs == ValsOf(t, Max({DepthOf(arms), Depth(c)}) + Slack) IN
  /\ WellTyped(c, t)
  /\ \E v \in vs : Matches(c, v)
  /\ \A v \in vs : Matches(c, v) => \A i \in 1..Len(arms) : ~Matches(arms[i], v)

(* ---- lowering: main_checker.rs check_matching_pattern (well-typed path) --- *)
AWild               == [k |-> "wild"]
ACtor(key, args)    == [k |-> "ctor", key |-> key, args |-> args]   \* StructLike{variant, elements}
AOrRaw(ps)          == [k |-> "or", ps |-> ps]
NoVariant           == <<"", "">>                                   \* variant: None (tuple / struct)
\* AbstractPatternNode::or
AOr(ps) == IF Len(ps) = 1 THEN ps[1] ELSE AOrRaw(ps)

RECURSIVE Lower(_, _)
Lower(p, t) ==
  CASE p.k \in {"wild", "var"} -> AWild
    [] p.k = "variant" -> LET a == CtorOf(t, p.tag).a IN
                          ACtor(<<t.c, p.tag>>, [i \in 1..Len(p.args) |-> Lower(p.args[i], a[i])])
    [] p.k = "tuple"   -> LET a == Ctors(t)[1].a IN
                          ACtor(NoVariant, [i \in 1..Len(p.args) |-> Lower(p.args[i], a[i])])
    [] p.k = "obj"     -> \* abstract_pattern_nodes[field_order] = abstract_node; not mentioned: wildcard
                          LET c == Ctors(t)[1] IN
                          ACtor(NoVariant,
                                [j \in 1..Len(c.f) |->
                                   IF \E i \in 1..Len(p.names) : p.names[i] = c.f[j]
                                   THEN Lower(p.args[CHOOSE i \in 1..Len(p.names) : p.names[i] = c.f[j]], c.a[j])
                                   ELSE AWild])
    [] p.k = "or"      -> AOr([i \in 1..Len(p.ps) |-> Lower(p.ps[i], t)])

(* ---- pattern_matching.rs -------------------------------------------------- *)
\* A PatternVector is a sequence of abstract nodes, a PatternMatrix a sequence of vectors.
Wilds(n) == [i \in 1..n |-> AWild]

RECURSIVE SpecRow(_, _, _), SpecRows(_, _, _, _)
\* convert_into_specialized_matrix_row: the rows one row contributes
SpecRow(row, key, n) ==
  LET f == Head(row) rest == Tail(row) IN
  CASE f.k = "ctor" -> IF f.key # NoVariant /\ key # NoVariant /\ f.key # key
                       THEN <<>>                            \* (Some(a), Some(b)) if a != b: skip
                       ELSE << f.args \o rest >>
    [] f.k = "wild" -> << Wilds(n) \o rest >>
    [] f.k = "or"   -> SpecRows([i \in 1..Len(f.ps) |-> <<f.ps[i]>> \o rest], key, n, <<>>)
SpecRows(rows, key, n, acc) ==
  IF rows = <<>> THEN acc ELSE SpecRows(Tail(rows), key, n, acc \o SpecRow(Head(rows), key, n))
\* convert_into_specialized_matrix
Specialize(P, key, n) == SpecRows(P, key, n, <<>>)

RECURSIVE DefQ(_, _)
\* default_matrix: a work queue; the alternatives of an or-pattern are pushed to the FRONT one by one
DefQ(queue, acc) ==
  IF queue = <<>> THEN acc
  ELSE LET row == Head(queue) f == Head(row) rest == Tail(row) IN
    CASE f.k = "ctor" -> DefQ(Tail(queue), acc)
      [] f.k = "wild" -> DefQ(Tail(queue), Append(acc, rest))
      [] f.k = "or"   -> DefQ([i \in 1..Len(f.ps) |-> <<f.ps[Len(f.ps) + 1 - i]>> \o rest] \o Tail(queue), acc)
Default(P) == DefQ(P, <<>>)

RECURSIVE RootsOf(_)
\* find_roots_constructors: constructor -> arity, here a set of [key, n]
RootsOf(p) == CASE p.k = "wild" -> {}
                [] p.k = "ctor" -> { [key |-> p.key, n |-> Len(p.args)] }
                [] p.k = "or"   -> UNION { RootsOf(p.ps[i]) : i \in 1..Len(p.ps) }
Roots(P) == UNION { RootsOf(Head(P[i])) : i \in 1..Len(P) }

\* signature_incomplete_names: None (= the signature is complete) or Some(missing constructors);
\* typing_context.rs variant_signature_incomplete_names: all variants of the class minus the given ones
SigNone       == [none |-> TRUE, names |-> {}]
SigSome(S)    == [none |-> FALSE, names |-> S]
SigIncomplete(roots) ==
  IF \E r \in roots : r.key = NoVariant THEN SigNone
  ELSE IF roots = {} THEN SigSome({})
  ELSE LET cls == { r.key[1] : r \in roots } IN
       IF Cardinality(cls) # 1 THEN Assert(FALSE, <<"variants_grouped.len() == 1", roots>>)
       ELSE LET c == CHOOSE x \in cls : TRUE
                vs == Decls[c].vs
                miss == { [key |-> <<c, vs[i].n>>, n |-> Len(vs[i].a)] :
                            i \in { j \in 1..Len(vs) : \A r \in roots : r.key[2] # vs[j].n } }
            IN IF miss = {} THEN SigNone ELSE SigSome(miss)

RECURSIVE Useful(_, _)
\* useful_internal
Useful(P, q) ==
  IF P = <<>> THEN TRUE
  ELSE IF q = <<>> THEN FALSE
  ELSE LET f == Head(q) rest == Tail(q) IN
    CASE f.k = "ctor" -> Useful(Specialize(P, f.key, Len(f.args)), f.args \o rest)
      [] f.k = "wild" ->
           LET roots == Roots(P) IN
           IF SigIncomplete(roots).none
           THEN \E r \in roots : Useful(Specialize(P, r.key, r.n), Wilds(r.n) \o rest)
           ELSE Useful(Default(P), rest)
      [] f.k = "or" -> \E i \in 1..Len(f.ps) : Useful(P, <<f.ps[i]>> \o rest)

\* derived Ord of Option<VariantPatternConstructor>: None first, then (module, class, variant) by PStr
\* order; all constructors of one column belong to one class, so the variant name decides.
AlphaIdx(tag) == IF tag = "" THEN 0 ELSE CHOOSE i \in 1..Len(Uni.alpha) : Uni.alpha[i] = tag
KeyLt(a, b) == AlphaIdx(a[2]) < AlphaIdx(b[2])
MinRoot(S) == CHOOSE r \in S : \A o \in S : o = r \/ KeyLt(r.key, o.key)
RECURSIVE SortRoots(_)
SortRoots(S) == IF S = {} THEN <<>> ELSE LET m == MinRoot(S) IN <<m>> \o SortRoots(S \ {m})

None == [some |-> FALSE, v |-> <<>>]
Some(x) == [some |-> TRUE, v |-> x]
RECURSIVE Cex(_, _), CexTry(_, _, _)
\* incomplete_counterexample_internal
Cex(P, n) ==
  IF n = 0 THEN (IF P = <<>> THEN Some(<<>>) ELSE None)
  ELSE LET roots == Roots(P) sg == SigIncomplete(roots) IN
    IF ~sg.none THEN
      LET r == Cex(Default(P), n - 1) IN
      IF ~r.some THEN None
      ELSE LET head == IF sg.names # {} THEN LET m == MinRoot(sg.names) IN ACtor(m.key, Wilds(m.n)) ELSE AWild
           IN Some(<<head>> \o r.v)
    ELSE CexTry(P, n, SortRoots(roots))
CexTry(P, n, rs) ==
  IF rs = <<>> THEN None
  ELSE LET r == Head(rs)
           c == Cex(Specialize(P, r.key, r.n), r.n + n - 1) IN
       IF c.some THEN Some(<< ACtor(r.key, SubSeq(c.v, 1, r.n)) >> \o SubSeq(c.v, r.n + 1, Len(c.v)))
       ELSE CexTry(P, n, Tail(rs))

RECURSIVE Describe(_)
\* AbstractPatternNode::to_description, as a source pattern (a struct prints as a tuple)
Describe(a) ==
  CASE a.k = "wild" -> Wild
    [] a.k = "ctor" -> IF a.key = NoVariant THEN Tuple([i \in 1..Len(a.args) |-> Describe(a.args[i])])
                       ELSE Variant(a.key[2], [i \in 1..Len(a.args) |-> Describe(a.args[i])])
    [] a.k = "or"   -> Or([i \in 1..Len(a.ps) |-> Describe(a.ps[i])])

Matrix(arms, t) == [i \in 1..Len(arms) |-> << Lower(arms[i], t) >>]
\* incomplete_counterexample + toplevel_elements_to_description (one column)
AlgCex(arms, t) == LET c == Cex(Matrix(arms, t), 1) IN IF c.some THEN Some(Describe(c.v[1])) ELSE None
\* check_match / check_declaration_statement: the diagnostic is reported iff there is a counterexample
AlgExhaustive(arms, t) == ~AlgCex(arms, t).some
\* check_if_else: useless iff the wildcard is not useful after the pattern
AlgIrrefutable(p, t) == ~Useful(Matrix(<<p>>, t), <<AWild>>)
AlgUsefulAfter(prev, p, t) == Useful(Matrix(prev, t), <<Lower(p, t)>>)

(* ---- the pattern pools, generated from the declarations ------------------- *)
RECURSIVE SeqProd(_)
\* all sequences s with s[i] \in sets[i]
SeqProd(sets) == IF sets = <<>> THEN {<<>>} ELSE { <<h>> \o r : h \in Head(sets), r \in SeqProd(Tail(sets)) }
Mk(t, ctor, as) == IF IsStruct(t) THEN Tuple(as) ELSE Variant(ctor.n, as)
Rev(s) == [i \in 1..Len(s) |-> s[Len(s) + 1 - i]]

RECURSIVE Atoms(_, _)
\* or-free positional patterns of depth <= d
Atoms(t, d) ==
  {Wild} \cup
  IF d = 0 THEN {}
  ELSE LET cs == Ctors(t) IN
       UNION { { Mk(t, cs[i], as) : as \in SeqProd([j \in 1..Len(cs[i].a) |-> Atoms(cs[i].a[j], d - 1)]) } : i \in 1..Len(cs) }
\* identifier patterns: at the top and as all arguments of a constructor
VarForms(t) == {Var} \cup { Mk(t, Ctors(t)[i], [j \in 1..Len(Ctors(t)[i].a) |-> Var]) : i \in 1..Len(Ctors(t)) }
\* object patterns with the fields in declaration order and in reverse order
ObjForms(t, d) ==
  IF ~IsStruct(t) \/ d = 0 THEN {}
  ELSE LET c == Ctors(t)[1] IN
       UNION { { Obj(c.f, as), Obj(Rev(c.f), Rev(as)) } : as \in SeqProd([j \in 1..Len(c.a) |-> Atoms(c.a[j], d - 1)]) }
OrTop(S) == { Or(<<a, b>>) : <<a, b>> \in { x \in S \X S : x[1] # x[2] } }
\* one argument of a constructor is an or-pattern of two depth-<=1 atoms, the others are wildcards
OrInside(t) ==
  LET cs == Ctors(t) IN
  UNION { UNION { { Mk(t, cs[i], [m \in 1..Len(cs[i].a) |-> IF m = j THEN o ELSE Wild]) : o \in OrTop(Atoms(cs[i].a[j], 1)) }
                  : j \in 1..Len(cs[i].a) } : i \in 1..Len(cs) }
\* the same one level further down, below each constructor with the other arguments wildcards
OrInside2(t) ==
  LET cs == Ctors(t) IN
  UNION { UNION { { Mk(t, cs[i], [m \in 1..Len(cs[i].a) |-> IF m = j THEN o ELSE Wild]) : o \in OrInside(cs[i].a[j]) }
                  : j \in 1..Len(cs[i].a) } : i \in 1..Len(cs) }
Or3(S) == { Or(<<x[1], x[2], x[3]>>) : x \in { y \in S \X S \X S : y[1] # y[2] /\ y[2] # y[3] /\ y[1] # y[3] } }

Lite == Atoms(Root, Uni.dl) \cup VarForms(Root)
Full == Lite \cup ObjForms(Root, 2) \cup OrTop(Atoms(Root, Uni.df) \cup ObjForms(Root, 1))
             \cup OrInside(Root) \cup OrInside2(Root) \cup Or3(Atoms(Root, 1))

(* ---- state space: every arm list up to the bound --------------------------- *)
VARIABLE arms
Init == arms = <<>>
NonLite(s) == Cardinality({ i \in 1..Len(s) : s[i] \notin Lite })
Next == /\ Len(arms) < MaxArms
        /\ \E p \in Full :
             /\ Len(arms) + 1 > FullArms => NonLite(Append(arms, p)) <= 1
             /\ arms' = Append(arms, p)
Spec == Init /\ [][Next]_arms

(* ---- invariants: the transcribed algorithm decides the semantic property ---- *)
ExhaustiveAgrees == AlgExhaustive(arms, Root) = SemExhaustive(arms, Root)
CexIsSound == LET c == AlgCex(arms, Root) IN c.some => CexSound(arms, c.v, Root)
IrrefutableAgrees == \A i \in 1..Len(arms) : AlgIrrefutable(arms[i], Root) = SemIrrefutable(arms[i], Root)
\* general usefulness (the code only asks it for a wildcard): the last arm is useful iff it matches
\* a value that no earlier arm matches
LastUsefulAgrees ==
  Len(arms) >= 1 =>
    LET prev == SubSeq(arms, 1, Len(arms) - 1) last == arms[Len(arms)] IN
    AlgUsefulAfter(prev, last, Root) =
      (\E v \in ValsOf(Root, DepthOf(arms) + Slack) : Matches(last, v) /\ \A i \in 1..Len(prev) : ~Matches(prev[i], v))
\* the pools are what the generator of the harness may render without provoking other diagnostics
PoolWellTyped == \A i \in 1..Len(arms) : WellTyped(arms[i], Root)

RECURSIVE TypesFrom(_, _)
TypesFrom(ts, n) == IF n = 0 THEN ts
                    ELSE TypesFrom(ts \cup UNION { UNION { Range(Ctors(t)[i].a) : i \in 1..Len(Ctors(t)) } : t \in ts }, n - 1)
UTypes == TypesFrom({Root}, 4)
AllTags == UNION { { Decls[c].vs[i].n : i \in 1..Len(Decls[c].vs) } : c \in DOMAIN Decls } \ {""}
\* evaluated on the initial state (heavy evaluation must not run in an ASSUME)
UniverseOK ==
  arms = <<>> =>
    /\ \A t \in UTypes : Vals(t, Slack) # {}                 \* SlackOK
    /\ Range(Uni.alpha) = AllTags /\ Len(Uni.alpha) = Cardinality(AllTags)   \* AlphaOK

\* one JSON line per arm list: the case for the real checker with what the semantics expects
Case == [u |-> U, arms |-> arms, exh |-> SemExhaustive(arms, Root),
         irr |-> IF Len(arms) = 1 THEN SemIrrefutable(arms[1], Root) ELSE FALSE]
Emit == /\ (EmitOn /\ Len(arms) >= 1) => PrintT(<<"CASE", ToJson(Case)>>)
        /\ (EmitOn /\ arms = <<>>) => PrintT(<<"UNIVERSE", ToJson([u |-> U, root |-> Root, decls |-> Decls, alpha |-> Uni.alpha,
                                                                     lite |-> Cardinality(Lite), full |-> Cardinality(Full)])>>)
=============================================================================
