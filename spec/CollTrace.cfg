SPECIFICATION TraceSpec
CONSTANTS
  Keys = {}
  Vals = {}
  MaxLen = 100000
INVARIANTS Report Conforms Laws
POSTCONDITION AllConsumed
CHECK_DEADLOCK FALSE
