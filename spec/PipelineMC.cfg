SPECIFICATION Spec
CONSTANTS
  Modules = {"A", "B", "C"}
  FaultKinds = {"int-range", "operand-type", "private-member", "match-nonexhaustive"}
  SyntaxKinds = {"int-range"}
  MaxFaults = 3
  LexicalChecked = TRUE
INVARIANTS TypeOK InvC06 InvSyntaxKept
PROPERTIES EventuallyRefused EventuallyEmitted NeverBoth
CHECK_DEADLOCK FALSE
