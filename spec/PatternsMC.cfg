SPECIFICATION Spec
INVARIANTS UniverseOK PoolWellTyped ExhaustiveAgrees CexIsSound IrrefutableAgrees LastUsefulAgrees Emit
CHECK_DEADLOCK FALSE
