------------------------------ MODULE CollTrace ------------------------------
(* Trace validation for C18.  The trace (ndjson, one record per line) is what compiled samlang
   programs printed while performing operation sequences on the real std Map / Set / List:
     {"ev": "seq", "id": n}                          a new sequence starts: all registers empty
     {"ev": "op", "o": [op, r, k, v, f], "obs": [g1, g2, ...]}
   where each group g = [who |-> <<builds>>, ok |-> BOOLEAN, parts |-> <<<<int>>>>, raw |-> STRING]
   gives the line printed for this operation by the listed builds (wasm0, wasm31, ts0, ts31 =
   WebAssembly / TypeScript back end, unoptimised / fully optimised), parsed into the canonical
   parts of Collections.tla (raw = the line itself; ok = FALSE when it has not the syntax expected
   for that operation, e.g. "<panic:Bad tree>" when the program ended there).
   Every operation is replayed on the abstract registers with the logged arguments
   (Collections!Step) and the printed result must equal the abstract observation obs', for every
   build.  verdict of the last consumed record:
     "ok"      all builds printed the abstract result
     "bad"     some build printed something else and no recorded finding covers it  -> C18 violated
     "known"   some build printed something else, covered by an open known finding (Hdr.excuse)
     "skip"    the sequence was abandoned after a bad/known step (registers no longer comparable)
   All "bad" records are printed (BAD lines); Conforms fails at the end of the trace if there was
   any. *)
EXTENDS Collections, Json, IOUtils

Rec == ndJsonDeserialize(IOEnv.TRACE)
Hdr == JsonDeserialize(IOEnv.TRACE_HDR)   \* [builds |-> <<...>>, excuse |-> <<[ops |-> <<...>>, line |-> "...", who |-> <<...>>]>>]
N == Len(Rec)
VARIABLES l, dead, verdict, nbad
tvars == <<vars, l, dead, verdict, nbad>>

InSeq(x, sq) == \E i \in 1..Len(sq) : sq[i] = x
GroupOK(g, expected) == g.ok /\ g.parts = expected
\* every build reported, and every reported line is the abstract observation
AllBuilds(e) == \A b \in 1..Len(Hdr.builds) : \E i \in 1..Len(e.obs) : InSeq(Hdr.builds[b], e.obs[i].who)
Matches(e, expected) == AllBuilds(e) /\ \A i \in 1..Len(e.obs) : GroupOK(e.obs[i], expected)
\* an open known finding covers this mismatch: the operation is one of its operations, and every
\* deviating group of builds has the recorded form: the line it printed (line = "" stands for any
\* line) and the builds it may concern (who = <<>> stands for any build)
Excused(e, expected) ==
  /\ AllBuilds(e)
  /\ \E x \in 1..Len(Hdr.excuse) :
       /\ InSeq(e.o.op, Hdr.excuse[x].ops)
       /\ \A i \in 1..Len(e.obs) :
            \/ GroupOK(e.obs[i], expected)
            \/ /\ Hdr.excuse[x].line = "" \/ e.obs[i].raw = Hdr.excuse[x].line
               /\ Hdr.excuse[x].who = <<>> \/ \A b \in 1..Len(e.obs[i].who) : InSeq(e.obs[i].who[b], Hdr.excuse[x].who)

TraceInit == Init /\ l = 1 /\ dead = FALSE /\ verdict = "ok" /\ nbad = 0
Reset == /\ m' = [r \in R |-> EmptyMap] /\ s' = [r \in R |-> {}] /\ q' = [r \in R |-> <<>>] /\ obs' = <<>>
TraceNext ==
  /\ l <= N
  /\ l' = l + 1
  /\ LET e == Rec[l] IN
       IF e.ev = "seq" THEN Reset /\ dead' = FALSE /\ verdict' = "ok" /\ nbad' = nbad
       ELSE IF dead THEN UNCHANGED <<vars, dead, nbad>> /\ verdict' = "skip"
       ELSE /\ Step(e.o)
            /\ verdict' = IF Matches(e, obs') THEN "ok" ELSE IF Excused(e, obs') THEN "known" ELSE "bad"
            /\ dead' = (verdict' # "ok")
            /\ nbad' = IF verdict' = "bad" THEN nbad + 1 ELSE nbad
TraceSpec == TraceInit /\ [][TraceNext]_tvars

\* always TRUE; lists the records judged bad / known (line number of the record in the trace; for
\* a bad one also the abstract observation that was expected)
Report == /\ (verdict = "bad") => PrintT(<<"BAD", l - 1>>) /\ PrintT(<<"EXPECTED", l - 1, ToJson(obs)>>)
          /\ (verdict = "known") => PrintT(<<"KNOWN", l - 1>>)
\* the verdict: no operation of any executed sequence printed anything but the abstract result
Conforms == (l > N) => nbad = 0
AllConsumed == TLCGet("stats").diameter - 1 = N
=============================================================================
