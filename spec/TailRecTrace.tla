--------------------------- MODULE TailRecTrace ---------------------------
(* Judges compiled programs made of function bodies enumerated from TailRec.tla (TailRecMC.tla,
   invariant Emit).  A record is one compiled program: `fns` are the enumerated cases it contains
   (function f, helper g, the argument tuples main calls f with, and the lines the generator
   expected), `runs` what every build / back end printed.  The oracle is the reference semantics of
   the specification, recomputed here from the body: a call whose evaluation stays within the budget
   must print the parameters the recursion prints and then the value the recursion returns; calls
   that exceed the budget are not in the program.  C01 / C02: the self-tail-call rewrite, the
   lowering of loops (loop variables, break values, nested loops after inlining) and the optimiser
   preserve that. *)
EXTENDS TailRec, Json, IOUtils

Rec == ndJsonDeserialize(IOEnv.TRACE)
N == Len(Rec)
VARIABLE l
TraceInit == l = 1
TraceNext == l <= N /\ l' = l + 1
TraceSpec == TraceInit /\ [][TraceNext]_l
Row == Rec[l - 1]

ProgOf(c) == [f |-> c.f, g |-> c.g]
RECURSIVE Flatten(_, _)
Flatten(sqs, i) == IF i > Len(sqs) THEN <<>> ELSE sqs[i] \o Flatten(sqs, i + 1)
\* the lines of one case: for every call within the budget, the printed parameters and the value
CaseLines(c) ==
  Flatten([j \in 1..Len(c.calls) |->
             LET r == Ref(ProgOf(c), c.calls[j].args) IN IF r.ok THEN Lines(r, c.f.unit) ELSE <<>>], 1)
Expected == Flatten([i \in 1..Len(Row.fns) |-> CaseLines(Row.fns[i])], 1)

\* the expectation the generator recorded is the specification's
ExpectationIsSpec ==
  l > 1 => \A i \in 1..Len(Row.fns) : \A j \in 1..Len(Row.fns[i].calls) :
             LET c == Row.fns[i]
                 r == Ref(ProgOf(c), c.calls[j].args)
             IN c.calls[j].ok = r.ok /\ (r.ok => c.calls[j].lines = Lines(r, c.f.unit))
\* every build on every back end prints what the recursion prints and returns
PrintedOK == l > 1 => \A k \in 1..Len(Row.runs) : Row.runs[k].out = Expected
AllConsumed == TLCGet("stats").diameter - 1 = N
=============================================================================
