---------------------------- MODULE EditsHistGen ----------------------------
(***************************************************************************)
(* Enumerates the workspace histories of C16 (EditsHist.tla): every        *)
(* initial workspace over the candidate modules, followed by every         *)
(* sequence of at most MaxOps operations (update to another kind, remove,  *)
(* rename onto any other candidate name).  Every history -- every prefix   *)
(* is one -- is printed with its initial texts, its operations and the     *)
(* live workspace / live exporters it ends in; on the way TLC checks the   *)
(* theorems below (what removing, renaming and "stops exporting" do to the *)
(* set of live exporters).  The driver replays each history on the real    *)
(* server and requests the proposals afterwards.                           *)
(***************************************************************************)
EXTENDS EditsHist, Json

CONSTANTS Cands,        \* candidate module names
          InitKinds,    \* [Cands -> SUBSET (HistKinds \cup {"absent"})]: what each may be at the start
          OpKinds,      \* kinds an update may write
          MaxOps

VARIABLE st   \* [n |-> -1 (root) | number of operations, init, ops, ws]

InitWss == {WsOf(k) : k \in {f \in [Cands -> HistKinds \cup {"absent"}] : \A m \in Cands : f[m] \in InitKinds[m]}}

Init == st = [n |-> 0 - 1, init |-> <<>>, ops |-> <<>>, ws |-> <<>>]
Next ==
  \/ /\ st.n = 0 - 1
     /\ \E w \in InitWss : st' = [n |-> 0, init |-> w, ops |-> <<>>, ws |-> w]
  \/ /\ st.n >= 0 /\ st.n < MaxOps
     /\ \E o \in {u \in UpdateOps(st.ws, OpKinds) : st.ws[u.m].k # u.kind} \cup RemoveOps(st.ws) \cup RenameOps(st.ws) :
          st' = [n |-> st.n + 1, init |-> st.init, ops |-> Append(st.ops, o), ws |-> ApplyOp(st.ws, o)]
  \/ /\ st.n = MaxOps /\ UNCHANGED st
Spec == Init /\ [][Next]_st

IsHist == st.n >= 0

\* ---- theorems about the model (checked on every history) ---------------------------------
\* the incremental workspace is the replay of the history
ReplayAgrees == IsHist => st.ws = Replay(st.init, st.ops)
\* what the last operation does to the exporters
LastOpEffect ==
  (IsHist /\ st.n > 0) =>
    LET o    == st.ops[st.n]
        prev == Replay(st.init, SubSeq(st.ops, 1, st.n - 1))
    IN /\ o.op = "remove" => /\ o.m \notin Live(st.ws)
                             /\ LiveExporters(st.ws) = LiveExporters(prev) \ {o.m}
       /\ o.op = "rename" => /\ o.m \notin Live(st.ws)
                             /\ (o.to \in LiveExporters(st.ws)) = (o.m \in LiveExporters(prev))
                             /\ st.ws[o.to].t = prev[o.m].t
       /\ o.op = "update" => /\ (o.m \in LiveExporters(st.ws)) = (o.kind = "foo")
                             /\ \A m \in Cands \ {o.m} : st.ws[m] = prev[m]
\* an exporter is live, a live module has a text
ExportersLive == IsHist => /\ LiveExporters(st.ws) \subseteq Live(st.ws)
                           /\ \A m \in Live(st.ws) : st.ws[m].t # ""

KindsOf(ws) == [m \in DOMAIN ws |-> ws[m].k]
Files(ws)   == {[m |-> m, t |-> ws[m].t] : m \in Live(ws)}
OpOut(o)    == [op |-> o.op, m |-> o.m, kind |-> o.kind, to |-> o.to,
                text |-> IF o.op = "update" THEN HistText(o.m, o.kind) ELSE ""]
Hist ==
  [hinit |-> KindsOf(st.init),                              \* the history in the terms of EditsHist.tla ...
   hops  |-> st.ops,
   init  |-> Files(st.init),                                \* ... and as files for the real server
   ops   |-> [i \in 1..Len(st.ops) |-> OpOut(st.ops[i])],
   live  |-> Files(st.ws),                                  \* the live workspace it ends in
   exporters |-> LiveExporters(st.ws)]
Emit == IsHist => PrintT(<<"HIST", ToJson(Hist)>>)
=============================================================================
