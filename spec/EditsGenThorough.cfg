SPECIFICATION Spec
CONSTANTS
  MaxImports = 3
  FewMax = 2
  UseLayouts = {"plain", "tight", "trail", "oneline", "stray", "local"}
  Layouts3 = {"plain", "tight", "trail"}
  NExporters = {1, 2}
  ExtMaxFull = 2
  ExtMaxLite = 3
  LiteCmts = {"none"}
  ExtLayouts = {"plain", "tight", "trail"}
  BoundMax = 3
  BoundLayouts = {"plain", "tight", "trail", "oneline"}
INVARIANTS ReadsBack NewlineFixGood GlueFixGoodIffSeparated GlueOkNeedsSemicolon ApplySane Emit
