SPECIFICATION Spec
CONSTANTS
  MaxImports = 3
  FewMax = 2
  UseLayouts = {"plain", "tight", "trail", "oneline", "stray", "local"}
  Layouts3 = {"plain", "tight", "trail"}
  NExporters = {1, 2}
  ExtMaxFull = 2
  ExtMaxLite = 3
  LiteCmts = {"none"}
  ExtLayouts = {"plain", "tight", "trail"}
  BoundMax = 3
  BoundLayouts = {"plain", "tight", "trail", "oneline"}
  MultiMax = 3
  UseMultiLayouts = {"wrap-last", "wrap-earlier", "wrap-all", "fromnl-last", "fromnl-earlier", "fromnl-all", "tailnl-last", "tailnl-earlier", "tailnl-all"}
  StdMax = 2
  UseStdClasses = {"Pair", "Triple", "Option", "List"}
  StdLayouts = {"plain", "tight", "trail", "wrap-last", "fromnl-all"}
INVARIANTS ReadsBack NewlineFixGood NewlineFixKeepsComments GlueFixGoodIffSeparated GlueOkNeedsSemicolon ApplySane Emit
