SPECIFICATION Spec
CONSTANTS
  Alphabet = {"o", "t", "r", "n", "m2", "m3", "m4"}
  MaxLen = 5
  MaxMarks = 2
INVARIANTS MachineIsPosAfter Compositional ColumnShortcut RunForm RoundTrip StrictlyMonotoneOffsets UnionsWellFormed SliceMatches
PROPERTY Monotone
