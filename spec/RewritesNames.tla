---------------------------- MODULE RewritesNames ----------------------------
(***************************************************************************)
(* C13 -- the REFERENCE reading of local names, free of constants so that   *)
(* it serves both the abstract programs of Rewrites.tla and the binding     *)
(* structures extracted from real programs (RewritesNamesTrace.tla).        *)
(*                                                                         *)
(* Binders are numbered 1..n; par[b] is the binder whose scope directly     *)
(* encloses binder b (0: none); sc[u] is the innermost binder in whose      *)
(* scope use u stands (0: none); bn / un give the names.  The scopes of     *)
(* the language in these terms: a member's parameters enclose its body; a   *)
(* `let` encloses the REST of its block; a lambda's parameters its body;    *)
(* the names of a match arm's pattern that arm; the names of an `if let`    *)
(* pattern the THEN block only -- so binders of blocks / arms / branches    *)
(* that follow one another are SIBLINGS (none is on the other's chain) and  *)
(* may carry the same name.                                                *)
(***************************************************************************)
EXTENDS Integers, Sequences

RECURSIVE ChainOf(_, _)
\* the binders enclosing a position, innermost first
ChainOf(par, b) == IF b = 0 THEN <<>> ELSE <<b>> \o ChainOf(par, par[b])

RECURSIVE FirstNamed(_, _, _)
FirstNamed(bn, ch, n) ==
  IF ch = <<>> THEN 0 ELSE IF bn[Head(ch)] = n THEN Head(ch) ELSE FirstNamed(bn, Tail(ch), n)

\* a use refers to the innermost enclosing binder of that name (0: unbound)
ResolveIn(par, sc, bn, un, u) == FirstNamed(bn, ChainOf(par, sc[u]), un[u])

\* the language has no shadowing: a binder may not reuse the name of an ENCLOSING binder
\* (and only of an enclosing one: a name whose scope was closed is free again)
ClashingIn(par, B, bn) == { b \in B : FirstNamed(bn, ChainOf(par, par[b]), bn[b]) # 0 }

\* RenameLocal's side condition on the binder: neither it nor its name takes part in a clash
RenameableIn(par, B, bn, b) ==
  /\ b \notin ClashingIn(par, B, bn)
  /\ bn[b] \notin { bn[c] : c \in ClashingIn(par, B, bn) }

\* ... and what is renamed with it: exactly the uses that resolve to it
OccurrencesIn(par, sc, U, bn, un, b) == { u \in U : ResolveIn(par, sc, bn, un, u) = b }
=============================================================================
